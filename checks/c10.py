"""C10 — Recorded addresses resolve to the right symbol, module and session.
Lean: Uft/Model/{Symtab,SymFile,Session}.lean, Uft/Props/C10.lean.
Tie: correspondence (H4): the real load_module_symbol_file / save_module_symbol_file /
find_sym / find_symtabs (utils/symbol.c), create_session / create_task / find_task_session /
session_add_dlopen / session_find_dlsym / task_find_sym_addr (utils/session.c) and the
task.txt writer+reader (utils/data-file.c), compiled from the scratch snapshot, run on
generated .sym texts, tables and session timelines against the Lean model; plus monitors
that evaluate the property itself (brute-force containment, round trip, ASLR independence,
session/dlopen ground truth known to the generator) on the implementation's output."""
import hashlib
import json
import os
import subprocess

from lib import common as C

U64 = 1 << 64
U32 = 1 << 32
SYMEND = ("__sym_end", "__dynsym_end", "__func_end")
ALLOWED = "TtwPKDdvu"          # without '?'
UTIL_SRCS = ["debug", "utils", "rbtree", "demangle", "symbol-libelf", "dwarf", "filter", "argspec",
             "auto-args", "regs", "data-file"]


def hx(b):
    if isinstance(b, str):
        b = b.encode("latin-1")
    return b.hex() if b else "-"


def unhx(s):
    return b"" if s == "-" else bytes.fromhex(s)


# ---- symbols / tables as python values ------------------------------------------------
def sym_tok(s):
    return "%x:%x:%x:%s" % (s[0], s[1], ord(s[2]), hx(s[3]))


def parse_sym(tok):
    if tok == "-":
        return None
    a, sz, t, n = tok.split(":")
    return (int(a, 16), int(sz, 16), chr(int(t, 16)), unhx(n).decode("latin-1"))


def parse_table(s):
    return [parse_sym(t) for t in s.split() if t != "-"]


def stop(s):
    return (s[0] + s[1]) % U64


def contains(s, a):
    return s[0] <= a < stop(s)


def well_formed(t):
    """WellFormed of Lemmas/Symtab.lean, evaluated independently on a table."""
    for i in range(len(t)):
        for j in range(i + 1, len(t)):
            x, y = t[i], t[j]
            if not (x[0] <= y[0] and (stop(x) <= y[0] or (x[0] == y[0] and stop(x) == stop(y)))):
                return False
    return True


def brute_find(t, a):
    """all symbols that contain a (the specification of find_sym on a table)"""
    return [s for s in t if contains(s, a)]


def roundtrip_pre(t):
    """premises of c10_load_save"""
    for i, s in enumerate(t):
        if s[1] == 0 or s[1] >= 0xa0000000 or s[2] not in ALLOWED:
            return False
        if s[3] in SYMEND or "\t" in s[3] or "\n" in s[3] or "\0" in s[3] or needs_demangle(s[3]):
            return False
        if i and (t[i - 1][0], t[i - 1][2]) == (s[0], s[2]):
            return False
        if i and t[i - 1][0] > s[0]:
            return False
    return True


def needs_demangle(n):
    if n.startswith("_GLOBAL__sub_I_"):
        n = n[15:]
    return n.startswith("_Z") or n.startswith("_R")


# ---- generators --------------------------------------------------------------------------
NAMES = ["main", "foo", "bar", "_start", "a", "b", "c", "operator new", "ns::cls::method", "x.part.0",
         "SyS_read", "sys_read", "__ia32_sys_open", "__x64_sys_open", "__libc_start_main", "f(int, char*)",
         "_init", "_fini", "frame_dummy", "puts", "malloc", "free", "z9", "Q", "_", "__x64", "sys_"]


def rand_name(rng):
    r = rng.random()
    if r < 0.8:
        return rng.choice(NAMES)
    return "".join(rng.choice("abcxyz_.:<> 019") for _ in range(rng.randint(1, 8))).strip() or "n"


def rand_table(rng, kind=None, maxn=12):
    """structured table: list of (addr, size, type, name); relative addresses."""
    kind = kind or rng.choice(["adjacent", "gaps", "zero", "dups", "overlap", "mixed", "mixed", "tiny"])
    n = rng.randint(0, 2) if kind == "tiny" else rng.randint(2, maxn)
    t = []
    addr = rng.choice([0, 0x100, 0x1000, 0x400000, rng.randrange(1 << 20) * 16])
    for _ in range(n):
        size = rng.choice([1, 2, 8, 0x10, 0x20, 0x100, rng.randint(1, 0x400)])
        ty = rng.choice("TTTTttwPPDdvu")
        name = rand_name(rng)
        k = kind if kind != "mixed" else rng.choice(["adjacent", "gaps", "zero", "dups", "overlap"])
        if k == "zero" and rng.random() < 0.4:
            size = 0
        t.append((addr, size, ty, name))
        if k == "adjacent":
            addr += size
        elif k == "gaps" or k == "tiny":
            addr += size + rng.choice([0, 1, 7, 0x100])
        elif k == "zero":
            addr += rng.choice([size, size + 8, 0x10, 0])
        elif k == "dups":
            r = rng.random()
            if r < 0.3:
                t.append((addr, size, ty, rand_name(rng)))           # same addr, same type
            elif r < 0.5:
                t.append((addr, size, rng.choice("tTw"), rand_name(rng)))   # alias, same range
            elif r < 0.6:
                t.append((addr, rng.choice([0, size + 4]), rng.choice("tTwD"), rand_name(rng)))
            addr += size + rng.choice([0, 4])
        elif k == "overlap":
            r = rng.random()
            if r < 0.4:
                addr += max(1, size // 2)       # next starts inside this one
            else:
                addr += size + rng.choice([0, 3])
    return t


def render_text(rng, t, style=None):
    """.sym text for a structured table in one of the on-disk variants."""
    style = style or rng.choice(["new", "new", "old", "mix", "messy"])
    lines = []
    shuffled = list(t)
    if rng.random() < 0.35:
        rng.shuffle(shuffled)                   # unsorted on disk
    plain_first = None
    for s in shuffled:
        if s[2] in ALLOWED and s[3] not in SYMEND:
            plain_first = s
            break
    body = []
    for s in shuffled:
        addr, size, ty, name = s
        st = style if style not in ("mix", "messy") else rng.choice(["new", "old", "old", "newshort"])
        if st == "new":
            l = "%016x %08x %c %s" % (addr, size, ty, name)
        elif st == "newshort":
            l = "%x %x %c %s" % (addr, size, ty, name)
        else:
            l = rng.choice(["%016x %c %s", "%x %c %s", "%08x %c %s"]) % (addr, ty, name)
        if style == "messy":
            r = rng.random()
            if r < 0.08:
                l = l.upper() if rng.random() < 0.5 else "0x" + l
            elif r < 0.14:
                l = rng.choice([" ", "\t", "  "]) + l
            elif r < 0.2:
                l = l + "\t[btrfs]"
            elif r < 0.24:
                l = l + "\r"
        body.append((s, l))
    if plain_first is not None:
        # the first accepted line must be a real symbol (see the model's header comment:
        # a marker/duplicate line before any symbol makes the C code touch sym[-1])
        for i, (s, l) in enumerate(body):
            if s is plain_first:
                body.insert(0, body.pop(i))
                a, sz, ty, nm = s
                body[0] = (s, "%016x %08x %c %s" % (a, sz, ty, nm) if style in ("new", "mix") else
                           "%016x %c %s" % (a, ty, nm))
                break
    if style in ("new", "mix") or rng.random() < 0.3:
        lines.append("# symbols: %d" % len(t))
        if rng.random() < 0.7:
            lines.append("# path name: /nonexistent-c10/libgen.so")
        if rng.random() < 0.3:
            lines.append("# build-id: 1234abcd")
    for i, (s, l) in enumerate(body):
        lines.append(l)
        if style == "messy" and i > 0:
            r = rng.random()
            if r < 0.05:
                lines.append(rng.choice(["", "garbage", "12345", "zz T name", "400 T", "400 Tname",
                                         "400  T x", "# a comment", "1000", "1000 10", "400 1g T q",
                                         "+400 T plus", "-1 T minus", "0x T zerox",
                                         "12345678901234567890 T overflow"]))
            elif r < 0.09:
                lines.append("%x %c %s" % (s[0], rng.choice("AbBrRnN"), "nottext"))      # filtered type
            elif r < 0.13:
                lines.append("%x %c %s" % (s[0] + s[1], rng.choice("?T"), rng.choice(SYMEND)))  # marker
            elif r < 0.16:
                lines.append("%x ? unknown" % (s[0] + s[1] + 4))
    if rng.random() < 0.5 and t:
        last = max(t, key=lambda s: s[0])
        lines.append("%016x %c %s" % ((last[0] + max(last[1], 0x10)) % U64, rng.choice("T?"), "__sym_end"))
    text = "\n".join(lines)
    if rng.random() < 0.9:
        text += "\n"
    return text


def special_texts():
    """hand-made texts for the corner cases named in the property"""
    return [
        # the repo's own unit-test tables
        "00000100 P printf\n00000200 P __dynsym_end\n00000300 T _start\n00000400 T main\n00000500 T __sym_end\n",
        "0100 P __tls_get_addr\n0200 P __dynsym_end\n0300 T _start\n0400 T foo\n0500 T __sym_end\n",
        # adjacent, new format
        "# symbols: 3\n0000000000001000 00000010 T a\n0000000000001010 00000010 T b\n0000000000001020 00000001 t c\n",
        # zero size at the end stays zero; zero size before same address stays zero
        "1000 00000000 T a\n1000 00000000 t a2\n2000 00000010 T c\n3000 00000000 T last\n",
        # duplicate (addr,type) dropped, SyS_ and __ia32 renames
        "ffffffff81000000 T SyS_read\nffffffff81000000 T sys_read\nffffffff81000100 T __ia32_sys_open\n"
        "ffffffff81000100 T __x64_sys_open\nffffffff81000200 T __sym_end\n",
        # unsorted on disk, old format: back-fill wraps
        "0000000000000400 T main\n300 T _start\n0500 T __sym_end\n0500 00000010 t foo\n0500 t foo2\n",
        # properly overlapping
        "1000 00000100 T big\n1080 00000010 t inner\n1100 00000010 T next\n",
        # zero-size inside another symbol (the overlap witness of the theorems)
        "0010 00000020 T outer\n0018 00000000 t mid\n0040 00000008 T next\n",
        # kernel style with module suffix and filtered types
        "ffffffffa0000000 t btrfs_end\t[btrfs]\nffffffffa0000040 b some_bss\t[btrfs]\nffffffffa0000080 T btrfs_x\t[btrfs]\n"
        "ffffffffa0000100 ? end\n",
        # size field whose first digit is a letter is taken for the type (line dropped)
        "1000 a0 T lettersize\n2000 10 T ok\n",
        # empty / only comments
        "", "# symbols: 0\n", "\n\n",
        # no trailing newline
        "1000 00000010 T a\n1010 00000010 T b",
        # wrap of addr + size
        "ffffffffffffff00 00000200 T wrap\nffffffffffffff80 00000010 T in\n",
    ]


def gen_lf_case(rng, text=None):
    if text is None:
        text = render_text(rng, rand_table(rng))
    off = rng.choice([0, 0, 0, 0x1000, 0x400000, 0x7f1234560000, U64 - 0x100])
    path = rng.choice(["/nonexistent-c10/liba.so", "/x/y z/prog", "prog"])
    bid = rng.choice(["", "", "0123456789abcdef0123456789abcdef01234567"])
    extra = [rng.randrange(0, 0x2000), rng.randrange(U64), U64 - 1]
    return "lf %x %s %s %s | %s" % (off, hx(text), hx(path), hx(bid), " ".join("%x" % a for a in extra))


def gen_sv_case(rng):
    kind = rng.choice(["adjacent", "gaps", "gaps", "zero", "dups", "overlap", "mixed"])
    t = rand_table(rng, kind)
    off = rng.choice([0, 0, 0x1000, 0x555555554000])
    t = [((a + off) % U64, sz, ty, nm) for (a, sz, ty, nm) in t]
    r = rng.random()
    if r < 0.15:
        rng.shuffle(t)                     # arbitrary order: bsearch on a non-sorted array
    elif r < 0.25 and t:
        i = rng.randrange(len(t))
        t[i] = (t[i][0], rng.choice([0x9fffffff, 0xa0000000, 0xffffffff, 0x10000000]), t[i][2], t[i][3])
    if len(t) > 1 and rng.random() < 0.2:
        # a marker name inside an in-memory table (find_sym hides it); never the first entry:
        # a marker line before any symbol followed by the same (addr,type) makes the loader
        # touch sym[-1] (see the assumptions)
        i = rng.randrange(1, len(t))
        t[i] = (t[i][0], t[i][1], t[i][2], rng.choice(SYMEND))
    addrs = set()
    for s in t:
        for a in (s[0] - 1, s[0], s[0] + s[1] // 2, s[0] + s[1] - 1, s[0] + s[1], s[0] + s[1] + 1):
            addrs.add(a % U64)
    addrs = sorted(addrs)
    if len(addrs) > 40:
        addrs = rng.sample(addrs, 40)
    path = rng.choice(["/nonexistent-c10/liba.so", "a b/c"])
    bid = rng.choice(["", "abcd"])
    return "sv %x %s %s | %s | %s" % (off, hx(path), hx(bid), " ".join(sym_tok(s) for s in t) or "-",
                                      " ".join("%x" % a for a in addrs))


def clean_table(rng, n=None, spread=False):
    """well-formed table with non-zero sizes (what ELF loading produces)"""
    n = n or rng.randint(2, 8)
    t = []
    addr = rng.choice([0x100, 0x1000, 0x400]) if not spread else rng.choice([0x40, 0x100])
    for i in range(n):
        size = rng.choice([1, 4, 0x10, 0x40, 0x100])
        name = "f%d_%s" % (i, rng.choice(["a", "b", "init", "x y"]))
        t.append((addr, size, rng.choice("TtPw"), name))
        addr += size + rng.choice([0, 0, 1, 0x20] + ([0x300, 0x700] if spread else []))
    return t


def gen_scenario(rng, strict_times=True):
    """Session/task/dlopen timeline.  Returns (case line, expectations) where expectations
    is a list parallel to the query ops: None or the expected result string (ground truth
    known by construction)."""
    ops = []
    nmods = rng.randint(2, 4)
    mods = {}
    # symbol directory separate from the data directory (--with-syms)?
    ws = rng.random() < 0.45
    ops.append("WS %d" % ws)
    # which modules share a basename (different directories, different build-ids)
    shared = set()
    if rng.random() < 0.6:
        shared = set(rng.sample(range(1, nmods + 1), rng.randint(2, nmods)))
    if strict_times:
        # combinations in which every module has its own symbol file and the loader can tell them
        # apart: with --with-syms only the build-id distinguishes same-named modules
        shared_bids = "all" if ws else rng.choice(["all", "none"])
    else:
        shared_bids = rng.choice(["all", "none", "mixed", "sameprefix"])
    used_prefix = set()

    def fresh_bid():
        while True:
            b = "%040x" % rng.getrandbits(160)
            if b[:4] not in used_prefix:
                used_prefix.add(b[:4])
                return b

    common = fresh_bid()
    dl_ok = []
    for m in range(1, nmods + 1):
        t = clean_table(rng, spread=True)      # symbols spread over several 0x1000 segments
        mods[m] = t
        if m in shared:
            path = "/nonexistent-c10/d%d/libsame.so" % m
            if shared_bids == "all":
                bid = fresh_bid()
            elif shared_bids == "none":
                bid = ""
            elif shared_bids == "mixed":
                bid = rng.choice(["", fresh_bid()])
            else:
                bid = common[:4] + ("%036x" % rng.getrandbits(144))
            ops.append("MODS %x %s %s %s" % (m, hx(path), hx(bid), " ".join(sym_tok(s) for s in t)))
            if not strict_times:
                dl_ok.append(m)
        elif rng.random() < 0.5:
            path = "/nonexistent-c10/d%d/lib%d.so" % (m, m)
            bid = rng.choice(["", fresh_bid()])
            ops.append("MODS %x %s %s %s" % (m, hx(path), hx(bid), " ".join(sym_tok(s) for s in t)))
            dl_ok.append(m)
        else:
            text = "".join("%016x %08x %c %s\n" % s for s in t)
            ops.append("MODT %x %s" % (m, hx(text)))
            dl_ok.append(m)
    span = 0x1000
    time = [rng.randint(1, 1000)]

    def tick():
        if strict_times or rng.random() < 0.7:
            time[0] += rng.randint(1, 500)
        return time[0]

    sessions = {}        # sid -> dict(maps=[(start,end,mod)], dl=[(time,base,mod)], stack)
    hist = {}            # tid -> list of (time, sid)
    procs = {}           # pid -> current sid
    nsid = [0]

    def new_session(pid, t):
        nsid[0] += 1
        sid = nsid[0]
        base = rng.choice([0x400000, 0x555555554000, 0x7f0000000000]) + rng.randrange(16) * 0x100000
        maps = []
        ms = rng.sample(sorted(mods), rng.randint(1, nmods))
        for m in ms:
            for _seg in range(rng.choice([1, 1, 2, 3, 4])):     # segment lines of the same file
                maps.append((base, base + span, m))
                base += span
            base += rng.choice([0, 0x1000, 0x100000])
        stack = 0x7ffd00000000 + rng.randrange(256) * 0x1000
        sessions[sid] = {"maps": maps, "dl": [], "pid": pid}
        ops.append("S %x %x %x %x %s" % (sid, pid, t, stack, " ".join("%x:%x:%x" % mp for mp in maps)))
        return sid

    pid0 = rng.randint(2, 50)
    t0 = time[0]
    s0 = new_session(pid0, t0)
    ops.append("T %x %x %x" % (pid0, pid0, t0))
    procs[pid0] = s0
    hist[pid0] = [(t0, s0)]
    next_id = pid0 + 1
    for _ in range(rng.randint(2, 9)):
        r = rng.random()
        t = tick()
        if r < 0.25:                                  # new thread in some process
            pid = rng.choice(sorted(procs))
            tid = next_id
            next_id += 1
            ops.append("T %x %x %x" % (pid, tid, t))
            hist[tid] = [(t, procs[pid])]
        elif r < 0.5:                                 # fork
            ppid = rng.choice(sorted(procs))
            pid = next_id
            next_id += 1
            ops.append("F %x %x %x" % (ppid, pid, t))
            procs[pid] = procs[ppid]
            hist[pid] = [(t, procs[ppid])]
            if not strict_times and rng.random() < 0.4:
                # grandchild forked at the very same timestamp (no session has pid == its ppid)
                gpid = next_id
                next_id += 1
                ops.append("F %x %x %x" % (pid, gpid, t))
                procs[gpid] = procs[pid]
                hist[gpid] = [(t, procs[pid])]
        elif r < 0.75:                                # exec in some process
            pid = rng.choice(sorted(procs))
            sid = new_session(pid, t)
            ops.append("T %x %x %x" % (pid, pid, t))
            procs[pid] = sid
            hist[pid].append((t, sid))
        elif dl_ok:                                   # dlopen in some session
            sid = rng.choice(sorted(sessions))
            m = rng.choice(dl_ok)
            olddl = sessions[sid]["dl"]
            if olddl and rng.random() < 0.4:
                base = olddl[-1][1]                   # reuse an address (dlclose + dlopen)
            else:
                base = 0x7e0000000000 + rng.randrange(64) * 0x100000
            if not strict_times and rng.random() < 0.3:
                t = rng.randint(1, t)                 # DLOP lines out of time order
            ops.append("D %x %x %x %x" % (sid, t, base, m))
            olddl.append((t, base, m))
            if not strict_times and rng.random() < 0.4:
                m2 = rng.choice(dl_ok)                # a second library, same time, same address
                ops.append("D %x %x %x %x" % (sid, t, base, m2))
                olddl.append((t, base, m2))
    tend = time[0] + 1000

    def expect_sym(sid, t, addr):
        s = sessions[sid]
        for (a, b, m) in merged_maps(s["maps"]):
            if a <= addr < b:
                c = [x for x in mods[m] if contains(x, addr - a)]
                if c:
                    return sym_tok(c[0])
                break
        for (dt, base, m) in [d for (_, d) in sorted(enumerate(s["dl"]), key=lambda e: (e[1][0], e[0]),
                                                     reverse=True)]:
            if dt > t:
                continue
            c = [x for x in mods[m] if contains(x, (addr - base) % U64)]
            if c:
                return sym_tok(c[0])
        return "-"

    queries = []
    expects = []
    tids = sorted(hist)
    for _ in range(rng.randint(8, 20)):
        tid = rng.choice(tids)
        h = hist[tid]
        t = rng.choice([h[0][0], h[-1][0], h[-1][0] - 1, rng.randint(h[0][0], tend), rng.randint(0, tend)])
        own = [sid for (ts, sid) in h if ts <= t]
        kind = rng.random()
        if kind < 0.2:
            queries.append("R %x %x" % (tid, t))
            expects.append("%x" % own[-1] if own and strict_times else None)
            continue
        sid = own[-1] if own else rng.choice(sorted(sessions))
        s = sessions[sid]
        # an address: inside a symbol of a mapped/dlopened module, a boundary, a gap, or unmapped
        r = rng.random()
        if r < 0.55 or not s["dl"]:
            a, b, m = rng.choice(s["maps"])
            a = [x for x in merged_maps(s["maps"]) if x[2] == m][0][0]
            base = a
        else:
            dt, base, m = rng.choice(s["dl"])
        f = rng.choice(mods[m])
        addr = base + rng.choice([f[0], f[0] + f[1] - 1, f[0] + f[1], f[0] + f[1] // 2, f[0] - 1, 0, 0xfff0])
        if rng.random() < 0.08:
            addr = rng.choice([0x10, 0x7f7f7f7f0000, 0xffffffff81000000])
        if kind < 0.55:
            queries.append("Q %x %x %x" % (tid, t, addr))
            if own and strict_times:
                expects.append("%x/%s" % (sid, expect_sym(sid, t, addr)))
            else:
                expects.append(None)
        elif kind < 0.8:
            queries.append("Y %x %x" % (sid, addr))
            expects.append(None)
        else:
            if s["dl"]:
                dt = rng.choice(s["dl"])[0]
                t = rng.choice([dt, dt - 1, dt + 1, t])
            queries.append("L %x %x %x" % (sid, max(t, 0), addr))
            expects.append(None)
    line = "scen | " + " | ".join(ops + queries)
    return line, expects


PROG_C = r"""
#include <stdio.h>
#include <stdlib.h>
extern int libfn(int);
extern int other(int);
static __attribute__((noinline)) int sfn(int x) { return x * 3; }
__attribute__((noinline)) int gfn(int x) { return sfn(x) + 1; }
__attribute__((noinline, weak)) int wfn(int x) { return x - 1; }
int main(int argc, char **argv) { printf("%d\\n", gfn(argc) + libfn(2) + wfn(3) + other(1)); return atoi("1") - 1; }
"""
OTHER_C = r"""
static __attribute__((noinline)) int sfn(int x) { return x * 5; }   /* same local name as in prog.c */
__attribute__((noinline)) int other(int x) { return sfn(x) + 2; }
int empty_obj[0];
"""
LIB_C = r"""
static __attribute__((noinline)) int helper(int x) { return x + 7; }
int libfn(int x) { return helper(x) * 2; }
int libfn_alias(int x) __attribute__((alias("libfn")));
int _libfn_under(int x) __attribute__((alias("libfn")));
"""


def build_elf_cases(ctx, st):
    """real ELF files -> `elf` cases with the addresses of their nm function symbols.
    Returns (cases, nm_info) with nm_info[case] = list of (addr, size, names)."""
    d = os.path.join(ctx.scratch, "elf")
    os.makedirs(d, exist_ok=True)
    for name, src in (("prog.c", PROG_C), ("other.c", OTHER_C), ("lib.c", LIB_C)):
        open(os.path.join(d, name), "w").write(src)
    files = []
    r1 = C.sh(["gcc", "-pg", "-O1", "-fPIC", "-shared", "-o", os.path.join(d, "libfoo.so"), os.path.join(d, "lib.c")])
    r2 = C.sh(["gcc", "-pg", "-O1", "-o", os.path.join(d, "prog"), os.path.join(d, "prog.c"),
               os.path.join(d, "other.c"), "-L" + d, "-lfoo"])
    r3 = C.sh(["gcc", "-O2", "-static-pie", "-o", os.path.join(d, "sprog"), os.path.join(d, "prog.c"),
               os.path.join(d, "other.c"), os.path.join(d, "lib.c")])
    if r1.returncode == 0:
        files.append(os.path.join(d, "libfoo.so"))
    if r2.returncode == 0:
        files.append(os.path.join(d, "prog"))
    if r3.returncode == 0 and ctx.tier != "quick":
        files.append(os.path.join(d, "sprog"))
    for lib in ["/lib/x86_64-linux-gnu/libc.so.6", "/lib/x86_64-linux-gnu/libm.so.6"]:
        if os.path.exists(lib) and (ctx.tier != "quick" or lib.endswith("libc.so.6")):
            files.append(lib)
    cases, info = [], {}
    for f in files:
        syms = {}
        for flag in ([], ["-D"]):
            r = C.sh(["nm", "-S", "--defined-only"] + flag + [f], stderr=subprocess.DEVNULL)
            for l in r.stdout.split("\n"):
                w = l.split()
                if len(w) == 4 and w[2] in "tTwWi":
                    a, sz = int(w[0], 16), int(w[1], 16)
                    if sz:
                        syms.setdefault((a, sz), set()).add(w[3].split("@")[0])
        if any(needs_demangle(n) for ns in syms.values() for n in ns):
            st["elf_skipped_mangled"] += 1
            continue
        lst = sorted((a, sz, sorted(ns)) for (a, sz), ns in syms.items())
        if len(lst) > 300:
            lst = ctx.rng.sample(lst, 300)
        addrs = []
        for a, sz, _ in lst:
            addrs += [a, a + sz - 1]
        case = "elf %s | %s" % (hx(f), " ".join("%x" % a for a in addrs))
        cases.append(case)
        info[case] = lst
    return cases, info


def merged_maps(maps):
    out = []
    for (a, b, m) in maps:
        if out and out[-1][2] == m:
            out[-1] = (out[-1][0], b, m)
        else:
            out.append((a, b, m))
    return out


# ---- running ---------------------------------------------------------------------------
def build_harness(ctx):
    ctx.snapshot()
    exe = os.path.join(ctx.scratch, "h_c10")
    srcs = [os.path.join(C.VERIF, "harness/c10_symres.c"), os.path.join(C.VERIF, "harness/c10_stubs.c")]
    srcs += [os.path.join(ctx.src, "utils", u + ".c") for u in UTIL_SRCS]
    ok, log = ctx.cc(exe, srcs + ["-lelf"], extra=["-DHAVE_LIBELF"])   # libs after the objects
    return exe if ok else None, log


def run_harness(ctx, exe, cases):
    d = os.path.join(ctx.scratch, "data")
    r = subprocess.run(["timeout", "600", exe, d], input="\n".join(cases) + "\n", stdout=subprocess.PIPE,
                       stderr=subprocess.PIPE, text=True)
    out = []          # per case: list of (model_line, impl_line)
    cur = None
    pend = None
    for l in r.stdout.split("\n"):
        if l.startswith("MODEL "):
            pend = l[6:]
        elif l.startswith("IMPL"):
            cur.append((pend, l[4:].strip()))
        elif l.startswith("CASE"):
            cur = []
            out.append(cur)
    return r, out


def corpus_cases():
    d = os.path.join(C.VERIF, "corpus", "C10")
    cases = []
    if os.path.isdir(d):
        for f in sorted(os.listdir(d)):
            for l in open(os.path.join(d, f)):
                l = l.strip()
                if l and not l.startswith("#"):
                    cases.append(l)
    return cases


def canon_runs(t):
    """order-insensitive inside runs of equal address (qsort is not specified to be stable)"""
    return sorted(t, key=lambda s: (s[0], s[1], s[2], s[3]))


def check_case(case, pairs, mouts, expects, st):
    """compare one harness case with the model outputs; returns list of problems:
    (kind, monitor_failed, description)"""
    probs = []
    kind = case.split()[0]

    def disagree(what, i):
        probs.append(("model-code-disagreement", False,
                      {"what": what, "model_input": pairs[i][0][:4000], "impl_output": pairs[i][1][:4000],
                       "model_output": mouts[i][:4000]}))

    def monitor(what, theorem, detail):
        probs.append(("property-violated-on-implementation", True,
                      {"what": what, "theorem": theorem, "detail": detail}))

    def check_find(i, table):
        mo = mouts[i].split()
        io = pairs[i][1].split()
        wf_model = mo[0] == "wf=1"
        addrs = [int(a, 16) for a in pairs[i][0].split("|")[2].split()]
        st["find_queries"] += len(addrs)
        wf_py = well_formed(table)
        if wf_py != wf_model:
            disagree("WellFormed evaluated by the model and by the monitor differ", i)
        if mo[1:] != io[1:]:
            if wf_model:
                disagree("find_sym result differs from the model on a well-formed table", i)
            else:
                st["find_diff_on_non_wf"] += 1
        st["wf_tables" if wf_py else "non_wf_tables"] += 1
        res = [parse_sym(x) for x in io[1:]]
        for a, r in zip(addrs, res):
            cands = brute_find(table, a)
            # soundness holds for every table
            if r is not None:
                st["resolved"] += 1
                if r not in table or not contains(r, a) or r[3] in SYMEND:
                    monitor("find_sym returned a symbol that does not contain the address", "c10_find_sound",
                            {"addr": "%x" % a, "result": sym_tok(r)})
            else:
                st["unresolved"] += 1
            if wf_py:
                real = [c for c in cands if c[3] not in SYMEND]
                if cands and len(real) == len(cands):
                    if r is None or (r[0], stop(r)) != (cands[0][0], stop(cands[0])):
                        monitor("address inside a symbol did not resolve to it", "c10_find_correct",
                                {"addr": "%x" % a, "expected_range_of": sym_tok(cands[0]),
                                 "result": sym_tok(r) if r else "-"})
                if not cands and r is not None:
                    monitor("address outside every symbol resolved", "c10_find_correct",
                            {"addr": "%x" % a, "result": sym_tok(r)})

    def check_load(i, text_off=None):
        mt = parse_table(mouts[i])
        it = parse_table(pairs[i][1])
        st["loads"] += 1
        if mt != it:
            if canon_runs(mt) == canon_runs(it) and [s[0] for s in mt] == [s[0] for s in it]:
                st["load_order_diff_within_equal_addr"] += 1
            else:
                disagree("loaded table differs from the model", i)
        if any(it[k][0] > it[k + 1][0] for k in range(len(it) - 1)):
            monitor("loaded table is not sorted by address", "c10_load_establishes_wf", {"table": pairs[i][1][:2000]})
        return it

    if kind == "lf":
        t1 = check_load(0)
        check_find(1, t1)
        if mouts[2] != pairs[2][1]:
            disagree("saved text differs from the model", 2)
        t2 = check_load(3)
        st["roundtrips"] += 1
        if roundtrip_pre(t1):
            st["roundtrips_with_premises"] += 1
            if t2 != t1:
                monitor("symbol file written by save_module_symbol_file does not reload to the same table",
                        "c10_load_save", {"before": pairs[2][0][:2000], "after": pairs[3][1][:2000]})
        # c10_load_establishes_wf evaluated on the implementation's table
        if st["raw_flags"].get(case) is not None:
            npo = st["raw_flags"][case]
            if npo and not well_formed(t1):
                monitor("sizes do not properly overlap but the loaded table is not well-formed",
                        "c10_load_establishes_wf", {"table": pairs[0][1][:2000]})
    elif kind == "sv":
        table = parse_table(pairs[0][0].split("|")[1])
        off = int(case.split()[1], 16)
        if mouts[0] != pairs[0][1]:
            disagree("saved text differs from the model", 0)
        t2 = check_load(1)
        st["roundtrips"] += 1
        if roundtrip_pre(table) and all(s[0] < U64 for s in table):
            st["roundtrips_with_premises"] += 1
            if t2 != table:
                monitor("symbol file written by save_module_symbol_file does not reload to the same table",
                        "c10_load_save", {"before": pairs[0][0][:2000], "after": pairs[1][1][:2000]})
        check_find(2, table)
    elif kind == "elf":
        table = parse_table(pairs[0][0].split("|")[1])
        st["elf_tables"] += 1
        st["elf_symbols"] += len(table)
        if not well_formed(table):
            st["elf_tables_not_wf"] += 1
        check_find(0, table)
        if mouts[1] != pairs[1][1]:
            disagree("saved text differs from the model", 1)
        t2 = check_load(2)
        st["roundtrips"] += 1
        if roundtrip_pre(table):
            st["roundtrips_with_premises"] += 1
            st["elf_roundtrips"] += 1
            if t2 != table:
                monitor("symbol file written by `record` (save_module_symtabs) does not reload to the same table",
                        "c10_load_save", {"file": unhx(case.split()[1]).decode(), "before_n": len(table),
                                          "after_n": len(t2),
                                          "first_diff": [sym_tok(x) for x in (set(table) ^ set(t2))][:6]})
        else:
            st["elf_roundtrip_premises_fail"] += 1
        # nm cross-check: first and last byte of every function resolve to a symbol starting there
        io = pairs[0][1].split()[1:]
        nm = st["nm_info"].get(case, [])
        if True:      # also on a table that is not well-formed: the property is about functions
            for k, (a, sz, names) in enumerate(nm):
                for j, q in enumerate((a, a + sz - 1)):
                    r = parse_sym(io[2 * k + j])
                    st["elf_nm_checks"] += 1
                    if r is None or r[0] != a or r[3] not in names:
                        monitor("address inside a function of a real ELF file is not shown under its name",
                                "c10_find_correct", {"file": unhx(case.split()[1]).decode(), "addr": "%x" % q,
                                                     "nm": names, "got": sym_tok(r) if r else "-"})
    elif kind == "scen":
        mo = mouts[0].split()
        io = pairs[0][1].split()
        st["scen_queries"] += len(io)
        if mo != io:
            disagree("session/dlopen/module resolution differs from the model", 0)
        if expects is not None:
            for k, e in enumerate(expects):
                if e is None or k >= len(io):
                    continue
                st["scen_ground_truth"] += 1
                if io[k] != e:
                    qops = [o.strip() for o in case.split("|")[1:] if o.split()[0] in "RYLQ"]
                    monitor("resolution differs from the ground truth of the generated timeline",
                            "c10_session_by_time / c10_dlopen_by_time / c10_relocation_invariant / c10_symfile_primary_buildid",
                            {"query": qops[k], "expected": e, "got": io[k]})
    return probs


def run_cases(ctx, exe, cases, expects_by_case, st):
    """returns list of (case, problems)"""
    r, out = run_harness(ctx, exe, cases)
    if r.returncode != 0 or len(out) != len(cases):
        return None, {"rc": r.returncode, "stderr": r.stderr[-2000:], "cases": len(cases), "got": len(out),
                      "harness_case": cases[len(out)][:20000] if len(out) < len(cases) else None}
    # extra model queries: NoProperOverlap of the raw table for lf cases
    mlines = []
    idx = []
    for ci, (case, pairs) in enumerate(zip(cases, out)):
        for p in pairs:
            mlines.append(p[0])
        idx.append(len(pairs))
    raw_q = []
    for case in cases:
        w = case.split()
        if w[0] == "lf":
            raw_q.append("raw %s %s" % (w[1], w[2]))
    mo_all = C.run_model("C10", mlines + raw_q)
    raws = mo_all[len(mlines):]
    k = 0
    for case in cases:
        if case.split()[0] == "lf":
            st["raw_flags"][case] = raws[k].startswith("npo=1")
            st["npo_tables"] += raws[k].startswith("npo=1")
            k += 1
    res = []
    pos = 0
    for ci, (case, pairs) in enumerate(zip(cases, out)):
        mouts = mo_all[pos:pos + len(pairs)]
        pos += len(pairs)
        need = {"lf": 4, "sv": 3, "scen": 1, "elf": 3}.get(case.split()[0], 0)
        if len(pairs) != need:
            res.append((case, [("model-code-disagreement", False, {"what": "harness produced %d results, expected %d"
                                                                   % (len(pairs), need)})], pairs))
            continue
        res.append((case, check_case(case, pairs, mouts, expects_by_case.get(case), st), pairs))
    return res, None


def aslr_cases(rng, n):
    """the same module mapped at two bases in two sessions: same offset, same answer"""
    cases = []
    for _ in range(n):
        t = clean_table(rng)
        text = "".join("%016x %08x %c %s\n" % s for s in t)
        b1 = 0x400000 + rng.randrange(256) * 0x1000
        b2 = 0x7f0000000000 + rng.randrange(1 << 20) * 0x1000
        span = 0x10000
        offs = set()
        for s in t:
            offs.update([s[0], s[0] + s[1] - 1, s[0] + s[1], max(0, s[0] - 1)])
        offs = sorted(o for o in offs if o < span)
        ops = ["MODT 1 %s" % hx(text),
               "S 1 a 64 7ffd00000000 %x:%x:1" % (b1, b1 + span),
               "S 2 b c8 7ffc12340000 %x:%x:1" % (b2, b2 + span)]
        q = []
        for o in offs:
            q.append("Y 1 %x" % (b1 + o))
            q.append("Y 2 %x" % (b2 + o))
        cases.append("scen | " + " | ".join(ops + q))
    return cases


def run(ctx):
    ok, problems = C.prove(ctx, "C10")
    if not ok:
        C.violation(ctx, "proof", {"kind": "proof-obligation-broken", "problems": problems}, True)
        return C.finish(ctx)

    exe, log = build_harness(ctx)
    if exe is None:
        C.violation(ctx, "build", {"kind": "harness-build-failed", "log": log[-3000:]}, True)
        return C.finish(ctx)

    rng = ctx.rng
    quick = ctx.tier == "quick"
    cases = list(corpus_cases())
    ncorpus = len(cases)
    expects = {}
    for text in special_texts():
        cases.append(gen_lf_case(rng, text))
    nlf = 900 if quick else 12000
    nsv = 500 if quick else 8000
    nsc = 500 if quick else 6000
    naslr = 40 if quick else 400
    for _ in range(nlf):
        cases.append(gen_lf_case(rng))
    for _ in range(nsv):
        cases.append(gen_sv_case(rng))
    for i in range(nsc):
        line, ex = gen_scenario(rng, strict_times=(i % 4 != 3))
        cases.append(line)
        expects[line] = ex
    aslr = aslr_cases(rng, naslr)
    cases += aslr

    st = {k: 0 for k in ["find_queries", "find_diff_on_non_wf", "wf_tables", "non_wf_tables", "resolved",
                         "unresolved", "loads", "load_order_diff_within_equal_addr", "roundtrips",
                         "roundtrips_with_premises", "scen_queries", "scen_ground_truth", "npo_tables",
                         "aslr_pairs", "elf_tables", "elf_symbols", "elf_tables_not_wf", "elf_roundtrips",
                         "elf_roundtrip_premises_fail", "elf_nm_checks", "elf_skipped_mangled"]}
    st["raw_flags"] = {}
    elf, st["nm_info"] = build_elf_cases(ctx, st)
    cases += elf
    res, err = run_cases(ctx, exe, cases, expects, st)
    if res is None:
        C.violation(ctx, "harness", dict(kind="harness-failed", **err), True)
        return C.finish(ctx)

    # ASLR monitor on the implementation's output: alternating Y 1 / Y 2 answers must be equal
    aslr_set = set(aslr)
    nviol = 0
    ndis = 0
    nmon = 0
    for case, probs, _ in res:
        for (kind, mon, detail) in probs:
            ndis += not mon
            nmon += mon
            if nviol < 4:
                nviol += 1
                h = hashlib.sha1(case.encode()).hexdigest()[:8]
                d = {"kind": kind, "harness_case": case if len(case) < 20000 else case[:20000]}
                d.update(detail)
                C.violation(ctx, "case-%s-%d" % (h, nviol), d, no_failing_input=not mon)
    # pairs of answers for the same offset at two bases
    if aslr:
        for case, _, pairs in res:
            if case not in aslr_set or len(pairs) != 1:
                continue
            io = pairs[0][1].split()
            for k in range(0, len(io) - 1, 2):
                st["aslr_pairs"] += 1
                if io[k] != io[k + 1]:
                    nmon += 1
                    if nviol < 4:
                        nviol += 1
                        C.violation(ctx, "aslr-" + hashlib.sha1(case.encode()).hexdigest()[:8], {
                            "kind": "property-violated-on-implementation", "theorem": "c10_relocation_two_bases",
                            "what": "same module offset resolves differently at two load addresses",
                            "harness_case": case, "answers": [io[k], io[k + 1]]})

    raw_flags = st.pop("raw_flags")
    st.pop("nm_info")
    distinct = len({hashlib.sha1(c.encode()).hexdigest() for c in cases})
    samples = []
    for c in (cases[ncorpus + 2], cases[ncorpus + len(special_texts()) + 3], cases[-naslr - len(elf) - 2]):
        samples.append(c[:300])
    ctx.coverage.update({
        "evaluations": st["find_queries"] + st["scen_queries"] + st["loads"] + st["roundtrips"],
        "distinct_nontrivial": distinct,
        "rule": "corpus, then hand-made .sym texts for each named corner (adjacent, zero-size, duplicate "
                "address, unsorted on disk, proper overlap, markers, kernel style, wrap), then random "
                ".sym texts (5 layout kinds x 5 on-disk styles, 35% shuffled) each queried at "
                "{start-1,start,mid,end-1,end,end+1} of every loaded symbol + 0 + random + 2^64-1, saved and "
                "reloaded; random in-memory tables (15% unsorted, 10% extreme sizes) saved/reloaded/queried; "
                "random session timelines (threads, forks, execs, dlopens incl. address reuse, multi-segment "
                "maps; symbol files written by the real save_module_symbol_file into the data directory or a "
                "separate --with-syms directory, 60% with 2-4 modules sharing a basename and build-ids "
                "all/none/mixed/same-4-prefix; every 4th with equal timestamps allowed) queried through "
                "find_task_session/find_symtabs/session_find_dlsym/task_find_sym_addr; ASLR pairs. "
                "distinct = distinct harness case lines",
        "cases": {"corpus": ncorpus, "special_texts": len(special_texts()), "random_texts": nlf,
                  "random_tables": nsv, "timelines": nsc, "aslr": naslr, "real_elf_files": len(elf)},
        "model_code_disagreements": ndis,
        "monitor_failures_on_impl": nmon,
        "exhaustive": False,
        "samples": samples,
    })
    ctx.coverage.update(st)
    scen = [c for c in cases if c.startswith("scen")]
    ctx.coverage["symfile_selection"] = {
        "timelines_with_syms_dir": sum("| WS 1 |" in c for c in scen),
        "timelines_same_basename_modules": sum(c.count(hx("/libsame.so")) >= 2 for c in scen),
        "both": sum("| WS 1 |" in c and c.count(hx("/libsame.so")) >= 2 for c in scen)}
    ctx.assumptions += [
        "libc bsearch is the midpoint loop of glibc (model = exact loop; compared on every query)",
        "qsort result is an address-sorted permutation; order inside equal-address runs is only counted",
        "names need no demangling (no _Z/_R prefix); no NUL bytes; no line ending right after '<addr> ' "
        "(the C code then reads a stale byte); '# symbols:' only in the header; first accepted line is a symbol",
        "rb-trees of sessions/tasks/modules are modelled by their in-order sequences",
        "no cyclic ppid chains; perf sched-event pseudo symbols not modelled",
    ]
    return C.finish(ctx)


def replay(ctx, path):
    r = json.load(open(path))
    print(json.dumps(r, indent=1)[:6000])
    case = r.get("harness_case")
    if not case:
        return 0
    exe, log = build_harness(ctx)
    if exe is None:
        print(log)
        return 2
    rr, out = run_harness(ctx, exe, [case])
    if not out:
        print("harness failed", rr.stderr[-1000:])
        return 2
    mouts = C.run_model("C10", [p[0] for p in out[0]])
    bad = 0
    for (m, i), mo in zip(out[0], mouts):
        same = (i.split()[1:] == mo.split()[1:]) if m.startswith("find") else (i == mo)
        print("MODEL-IN ", m[:1500])
        print("IMPL     ", i[:1500])
        print("MODEL-OUT", mo[:1500])
        print("same" if same else "DIFFERENT")
        bad += not same
    return 1 if bad else 0
