"""C18 — Scripts observe the same calls as replay.
Lean: Uft/Model/Script.lean, Uft/Lemmas/Script.lean, Uft/Props/C18.lean, Driver/C18.lean.

Tie (H3, analysis time): data directories synthesized with lib/datadir.py (1-4 tasks, nesting,
recursion, open calls at the end, timestamp ties, argument / return value payloads) are given to the
snapshot's `uftrace script -S <logging script>` (Python; Lua for a part of the cases) and to
`uftrace replay` with the same options (-F / -N / -D / -t / --tid / --no-args; a UFTRACE_FUNCS list
in the script).  The script's lines are compared (1) with the model's callback sequence, and the
replay output with the model's shown lines (correspondence), and (2) with the replay output itself
(the property, evaluated on the implementation's output alone), plus B/END once and entry/exit
pairing per task.

Argument buffer: translators/scriptargs2lean.py turns the size / advance expressions of libmcount's
save_to_argbuf, replay's get_argspec_string and the python / luajit setup_argument_context into
lean/Uft/Gen/ScriptArgs.lean on every run; c18_args_decode_roundtrip_{replay,python,lua} are proved
against that file (a changed ALIGN breaks the proof).  H3 writes payloads with every argument format
in random order and count and compares each decoded ctx["args"] / ctx["retval"] element with the text
replay prints for the same record (Python and Lua).

Tie (H1, record time): the real libmcount linked with harness/h1_c18_driver.c (scripted clock, up to
4 threads, UFTRACE_SCRIPT=<x.testing> so that script_init() succeeds without an interpreter and the
driver's own logging functions are the script callbacks) on random call forests with random filters
and trace_on / trace_off triggers; the hook log is compared with the model (Uft.Script.Hook on top of
Uft.Mcount) and checked for pairing per thread.  End-to-end runs: `uftrace record -S log.py` on a
multi-threaded C program.

Fix-up records (group `fixup` of the H3 part): directories with calls of setjmp / longjmp (to the jmp_buf
armed last), exec* and fork / vfork by symbol name, forked child tasks that start with the EXIT of fork;
the script's callbacks are compared with replay line by line including the depth (Lean: scriptRunX /
replayShownX, c18_depth_matches_replay_fixups).  cmds/replay.c before the repair of F-C18-EXIT-ADDR is the
model variant `exitaddr=0`.

Exec chains (group `exec2` of the H3 part): one task execs once or twice (prog -> stage2 [-> prog]); task.txt
has a SESS line per stage, each with its own map file, and prog.sym / stage2.sym give the SAME addresses
DIFFERENT names.  UFTRACE_FUNCS lists names of both programs so that some address is listed under exactly one
of its two names; every stage calls it.  Same monitors: the callbacks (Python and Lua) are exactly the calls
replay shows whose NAME is listed, in every stage (the model's function numbers are per name, not per address).

Every thread at record time (harness/c18_mt.py): generated pthread programs (2-4 threads) recorded with -S
<logging script> in Python and in Lua, one callback slow, the other threads' hooks forced to overlap with
it; per tid the callback log must equal the calls of the recorded data and be properly paired (Lean:
c18_record_time_every_thread; utils/script-luajit.c without a lock is finding F-C18-LUA-NOLOCK).
"""
import json
import os
import re
import shutil
import struct
import subprocess
from concurrent.futures import ThreadPoolExecutor

from lib import common as C
from lib import datadir as D

NAMES = ["main", "alpha", "beta", "gamma", "delta", "eps", "zeta", "eta"]
NF = len(NAMES)                      # the functions the random walks call
# fix-up symbols (utils/fstack.c fixup_syms[], matched by name): what fstack_entry / fstack_update do for them
FIXKIND = {"setjmp": "s", "_setjmp": "s", "sigsetjmp": "s", "longjmp": "l", "siglongjmp": "l", "execve": "e", "execl": "e",
           "fork": "f", "vfork": "f"}
ALLNAMES = NAMES + sorted(FIXKIND)
SYMS = [(0x100 * (k + 1), 0x40, n) for k, n in enumerate(ALLNAMES)]
ADDR = [D.BASE + rel for rel, _, _ in SYMS]
FN_OF_ADDR = {a: k for k, a in enumerate(ADDR)}
FN_OF_NAME = {n: k for k, n in enumerate(ALLNAMES)}
FIX_FNS = {FN_OF_NAME[n]: k for n, k in FIXKIND.items()}
# a second program (what an exec'd, identically laid out non-PIE stage has): the SAME addresses carry OTHER
# names (main stays main).  Its functions are function numbers of their own (N_ALL + k - 1 for slot k): the model,
# the monitors and UFTRACE_FUNCS are about functions / names, only the records carry addresses.
N_ALL = len(ALLNAMES)
S2NAMES = ["main", "omega", "psi", "chi", "phi", "tau", "rho", "nu"]
EXE2 = "/synth/stage2"
SID2, SID3 = "0f1e2d3c4b5a6978", "5566778899aabbcc"
SYMS2 = [(rel, sz, (S2NAMES[k] if k < NF else n)) for k, (rel, sz, n) in enumerate(SYMS)]
ALLNAMES = ALLNAMES + S2NAMES[1:]
ADDR = ADDR + ADDR[1:NF]
FN_OF_NAME = {n: k for k, n in enumerate(ALLNAMES)}


def fn2(k):
    """function number of slot k (1 <= k < NF) in the second program; main (slot 0) is the same function"""
    return N_ALL + k - 1 if k else 0
T0 = 2000
HAVE_LUA = True
OCT_CASE = {"python": True, "lua": True}     # does the binding have `case ARG_FMT_OCT` (set from the translator)
F_OCT = "F-C18-OCT"
F_ARGS = "F-C18-ARGS"
F_EXITHOOK = "F-C18-EXITHOOK"
F_EXITADDR = "F-C18-EXIT-ADDR"
F_LUALOCK = "F-C18-LUA-NOLOCK"


# ------------------------------------------------------------------ formatting as print_time_unit()
TIME_LIMITS = [1000, 1000, 1000, 60, 60, 1 << 31]      # `limit[]` of __print_time_unit; re-read from the snapshot by run()


def read_time_limits(src):
    """the unit table of utils/debug.c __print_time_unit() as the snapshot has it (it had 24 minutes per hour
    before commit 932eef0; only durations of 24 minutes and more are affected)"""
    try:
        text = open(os.path.join(src, "utils", "debug.c")).read()
    except OSError:
        return None
    m = re.search(r"unsigned\s+limit\[\]\s*=\s*\{([^}]*)\}", text)
    if not m:
        return None
    vals = []
    for tok in m.group(1).replace("\n", " ").split(","):
        tok = tok.strip()
        if not tok:
            continue
        vals.append(1 << 31 if tok == "INT_MAX" else int(tok, 0))
    return vals if len(vals) == 6 else None


def fmt_unit(ns):
    """utils/debug.c __print_time_unit(): '%3d.%03d %2s', blank for 0."""
    if ns == 0:
        return ""
    units = ["us", "ms", " s", " m", " h"]
    limit = TIME_LIMITS
    delta, small = ns, 0
    idx = 0
    for idx in range(len(units)):
        small = delta % limit[idx]
        delta = delta // limit[idx]
        if delta < limit[idx + 1]:
            break
    if delta > 999:
        delta = small = 999
    return ("%3d.%03d %s" % (delta, small, units[idx])).strip()


# ------------------------------------------------------------------ argument specs, values, payload bytes
# One spec = dict(kind, size, text[, fmt, name]); `text` is the suffix after argN / retval in the argspec string.
#   int   /d /i /u /x /o with 8, 16, 32 or 64 bits (no suffix: /d, 8 bytes)      libmcount: ALIGN(size, 4) bytes
#   chr   /c (1 byte)   flt /f32 /f64 /f80 and fpargN   ptr /p   enum /e:<type>   struct /t<size>[:<type>]
#   str   /s   sstr /S  : 2-byte length + bytes, ALIGN(len + 2, 4); NULL = length 4 + ff ff ff ff
CHARS = "abcxyzQ09_+-*/=<>()[]{}.:;!?@#$%^&~"
STRCH = "abcdefxyz0189_"


def rand_spec(rng, oct_ok=False):
    r = rng.random()
    if r < 0.34:
        fmt = rng.choice("diuxx" + ("o" if oct_ok else ""))
        if oct_ok and rng.random() < 0.5:
            fmt = "o"
        bits = rng.choice([8, 16, 32, 64])
        text = "" if (fmt == "d" and bits == 64 and rng.random() < 0.5) else "/%s%d" % (fmt, bits)
        return {"kind": "int", "fmt": fmt, "size": bits // 8, "text": text}
    if r < 0.52:
        return {"kind": "str", "size": 0, "text": "/s"}
    if r < 0.60:
        return {"kind": "sstr", "size": 0, "text": "/S"}
    if r < 0.68:
        return {"kind": "chr", "size": 1, "text": "/c"}
    if r < 0.80:
        bits = rng.choice([32, 64, 80])
        return {"kind": "flt", "size": bits // 8, "text": "/f%d" % bits}
    if r < 0.86:
        return {"kind": "ptr", "size": 8, "text": "/p"}
    if r < 0.92:
        return {"kind": "enum", "size": 8, "text": "/e:color"}
    size = rng.choice([1, 3, 4, 8, 12, 16, 24])
    name = rng.choice(["pair", "vec3", ""])
    return {"kind": "struct", "size": size, "name": name, "text": "/t%d%s" % (size, (":" + name) if name else "")}


def rand_value(rng, sp, lua):
    k = sp["kind"]
    if k == "int":
        n = 8 * sp["size"]
        v = rng.choice([0, 1, 7, (1 << n) - 1, 1 << (n - 1), (1 << (n - 1)) - 1, 200 % (1 << n), 100001 % (1 << n),
                        rng.randrange(1 << n), rng.randrange(1 << n), rng.randrange(min(1 << n, 1000))])
        if lua and n == 64 and not (v < (1 << 50) or v >= (1 << 64) - (1 << 50)):
            v = rng.randrange(1 << 50)          # lua numbers are doubles
        if sp["fmt"] == "d" and n == 64 and 0xffff0000 < v <= 0xffffffff:
            v = 5                                # replay shows these as negative 32-bit numbers (heuristic)
        return v
    if k == "chr":
        return rng.choice(CHARS)
    if k in ("str", "sstr"):
        if k == "str" and rng.random() < 0.08:
            return None                          # NULL pointer
        n = rng.choice([0, 1, 2, 2, 3, 4, 5, 6, 6, 7, 8, 9, 10, 10, 11, 14, 33])
        s = "".join(rng.choice(STRCH) for _ in range(n))
        return "nulL" if s == "NULL" else s
    if k == "flt":
        if sp["size"] == 4 or rng.random() < 0.3:
            return rng.randint(-79999, 79999) / 8.0     # exact as a float
        return rng.randint(-10 ** 12, 10 ** 12) / 1000.0  # needs the precision of a double
    if k == "ptr":
        return rng.choice([0, ADDR[rng.randrange(NF)], 0x7f0012345678, rng.randrange(1 << 40) + (1 << 40)])
    if k == "enum":
        return rng.choice([0, 1, 2, 7, 1000, (1 << 64) - 1 if not lua else 3])
    if k == "struct":
        return bytes(rng.randrange(256) for _ in range(sp["size"])).hex()
    raise ValueError(k)


def f80_bytes(v):
    if v == 0:
        return b"\0" * 10
    sign = 1 if v < 0 else 0
    m, e = abs(v), 0
    while m >= 2:
        m /= 2
        e += 1
    while m < 1:
        m *= 2
        e -= 1
    return struct.pack("<QH", int(m * (1 << 63)), (e + 16383) | (sign << 15))


def al4(b):
    return b + b"\0" * ((-len(b)) % 4)


def enc_value(sp, v):
    """the bytes libmcount's save_to_argbuf() writes for one value (record.c)"""
    k = sp["kind"]
    if k in ("int", "ptr", "enum"):
        return al4((v % (1 << (8 * sp["size"]))).to_bytes(sp["size"], "little"))
    if k == "chr":
        return al4(v.encode())
    if k in ("str", "sstr"):
        raw = b"\xff\xff\xff\xff" if v is None else v.encode()
        return al4(struct.pack("<H", len(raw)) + raw)
    if k == "flt":
        return al4({4: struct.pack("<f", v), 8: struct.pack("<d", v), 10: f80_bytes(v)}[sp["size"]])
    if k == "struct":
        return al4(bytes.fromhex(v))
    raise ValueError(k)


def enc_payload(specs, vals):
    return b"".join(enc_value(sp, v) for sp, v in zip(specs, vals))


# canonical value of one argument, from the three places it can be observed
def canon_truth(sp, v):
    k = sp["kind"]
    if k == "int":
        return ("int", v % (1 << (8 * sp["size"])))
    if k in ("ptr", "enum"):
        return ("int", v % (1 << 64))
    if k == "chr":
        return ("chr", v)
    if k in ("str", "sstr"):
        return ("str", "NULL" if v is None else v)
    if k == "flt":
        return ("flt", "%f" % v)
    return ("struct", sp.get("name", ""))


def canon_script_val(sp, x):
    """x: the JSON value the script printed for this element"""
    k = sp["kind"]
    try:
        if k in ("int", "ptr", "enum"):
            if isinstance(x, bool) or not isinstance(x, (int, float)) or x != int(x):
                return ("bad", repr(x))
            return ("int", int(x) % (1 << (8 * (sp["size"] if k == "int" else 8))))
        if k == "chr":
            return ("chr", x) if isinstance(x, str) else ("bad", repr(x))
        if k in ("str", "sstr"):
            return ("str", x) if isinstance(x, str) else ("bad", repr(x))
        if k == "flt":
            return ("flt", "%f" % float(x)) if isinstance(x, (int, float)) and not isinstance(x, bool) else ("bad", repr(x))
        m = re.match(r"^struct: (.*)\{\}$", x) if isinstance(x, str) else None
        return ("struct", m.group(1)) if m else ("bad", repr(x))
    except (ValueError, OverflowError, TypeError):
        return ("bad", repr(x))


def canon_replay_val(sp, tok):
    """tok: the text replay printed for this element"""
    k = sp["kind"]
    try:
        if k == "int":
            if sp["fmt"] == "o":
                v = int(tok, 8)
            elif tok.startswith(("0x", "-0x")):
                v = int(tok, 16)
            else:
                v = int(tok, 10)
            return ("int", v % (1 << (8 * sp["size"])))
        if k == "ptr":
            if tok.startswith("&"):
                return ("int", ADDR[FN_OF_NAME[tok[1:]]])
            return ("int", int(tok, 16) if tok.startswith("0x") else int(tok))
        if k == "enum":
            return ("int", int(tok) % (1 << 64))
        if k == "chr":
            return ("chr", tok[1:-1]) if len(tok) >= 2 and tok[0] == tok[-1] == "'" else ("bad", tok)
        if k in ("str", "sstr"):
            if tok == "NULL":
                return ("str", "NULL")
            t = tok[:-1] if (k == "sstr" and tok.endswith('"s')) else tok
            return ("str", t[1:-1]) if len(t) >= 2 and t[0] == t[-1] == '"' else ("bad", tok)
        if k == "flt":
            return ("flt", tok)
        m = re.match(r"^(.*)\{(\.\.\.)?\}$", tok)
        return ("struct", m.group(1)) if m else ("bad", tok)
    except (ValueError, KeyError):
        return ("bad", tok)


def specs_of(case, fn, is_ret):
    sp = case["specs"].get(fn) or case["specs"].get(str(fn))
    if not sp:
        return []
    return ([sp["ret"]] if sp["ret"] else []) if is_ret else sp["args"]


def canon_script_list(specs, js, is_ret):
    """the script's args / retval (JSON text) -> list of canonical values, None for no key"""
    try:
        v = json.loads(js)
    except ValueError:
        return [("bad", js)]
    if v is None:
        return None
    if is_ret:
        v = [v]
    if not isinstance(v, list):
        return [("bad", js)]
    if len(v) != len(specs):
        return [("bad", "%d values for %d specs: %s" % (len(v), len(specs), js))]
    return [canon_script_val(sp, x) for sp, x in zip(specs, v)]


def canon_replay_list(specs, text):
    if text is None or text == "":
        return None
    toks = text.split(", ")
    if len(toks) != len(specs):
        return [("bad", "%d values for %d specs: %s" % (len(toks), len(specs), text))]
    return [canon_replay_val(sp, t) for sp, t in zip(specs, toks)]


def canon_token_list(case, tok):
    """a payload token of the model -> canonical values (with the specs the payload was written for)"""
    if tok == 0:
        return None
    p = case["payloads"][tok - 1]
    specs = specs_of(case, p["fn"], p["ret"])
    return [canon_truth(sp, v) for sp, v in zip(specs, p["vals"])]


def token_specs(case, tok):
    p = case["payloads"][tok - 1]
    return specs_of(case, p["fn"], p["ret"])


# ------------------------------------------------------------------ data directory with argspec
class ArgDir(D.DataDir):
    """DataDir whose `info` carries an argspec / retspec (ARG_SPEC info bit, ARGUMENT|RETVAL features)."""
    specs = {}

    def info_bytes(self):
        b = super().info_bytes()
        hdr, body = bytearray(b[:40]), b[40:]
        feat, mask = struct.unpack_from("<QQ", hdr, 16)
        struct.pack_into("<QQ", hdr, 16, feat | 8 | 16, mask | (1 << 10))
        a, r = [], []
        for f in sorted(self.specs, key=int):
            sp = self.specs[f]
            if sp["args"]:
                a.append("%s@%s" % (NAMES[int(f)], ",".join(
                    ("fparg%d" % (i + 1)) if s.get("fp") else ("arg%d%s" % (i + 1, s["text"])) for i, s in enumerate(sp["args"]))))
            if sp["ret"]:
                r.append("%s@retval%s" % (NAMES[int(f)], sp["ret"]["text"]))
        lines = []
        if a:
            lines.append("argspec:" + ";".join(a))
        if r:
            lines.append("retspec:" + ";".join(r))
        spec = ("argspec:lines=%d\n%s\n" % (len(lines), "\n".join(lines))).encode()
        assert b"record_date:" in body
        return bytes(hdr) + body.replace(b"record_date:", spec + b"record_date:", 1)


def gen_specs(rng, group):
    """function -> {"args": [spec…], "ret": spec|None}"""
    specs = {}
    oct_ok = group == "oct"
    for f in rng.sample(range(NF), rng.choice([2, 3, 4, 5])):
        n = rng.choice([0, 1, 1, 2, 2, 3, 4, 6])
        args = [rand_spec(rng, oct_ok) for _ in range(n)]
        for s in args:
            if s["kind"] == "flt" and s["size"] == 8 and rng.random() < 0.3:
                s["fp"] = True                     # written as fpargN
        ret = rand_spec(rng, oct_ok) if rng.random() < 0.6 else None
        if group == "oct" and not any(s.get("fmt") == "o" for s in args):
            args.insert(rng.randint(0, len(args)), {"kind": "int", "fmt": "o", "size": 4, "text": "/o32"})
        if group == "argless" and not args:
            args = [rand_spec(rng)]
        if args or ret:
            specs[f] = {"args": args, "ret": ret}
    if group == "argless" and 1 not in specs:
        specs[1] = {"args": [rand_spec(rng), rand_spec(rng)], "ret": None}
    return specs


# ------------------------------------------------------------------ case generator
def gen_task(rng, case, t, step, nrec, maxdepth, open_end, argless=0.0):
    """random properly nested walk starting at depth 0; records (typ, time, depth, fn, payload#)"""
    recs, stack = [], []
    pl = case["payloads"]
    lua = case["lang"] == "lua"

    def payload(fn, is_ret):
        specs = specs_of(case, fn, is_ret)
        if not case["args"] or not specs:
            return 0
        pl.append({"fn": fn, "ret": is_ret, "vals": [rand_value(rng, sp, lua) for sp in specs]})
        return len(pl)                  # 1-based token
    seen_payload = False
    while len(recs) < nrec:
        d = len(stack)
        if d == 0:
            kind = "E"
        elif d >= maxdepth:
            kind = "X"
        else:
            kind = "E" if rng.random() < 0.55 else "X"
        t += step()
        if kind == "E":
            fn = stack[-1] if (stack and rng.random() < 0.2) else rng.randrange(NF)
            if argless and seen_payload and specs_of(case, fn, False) and rng.random() < argless:
                p = 0                   # an ENTRY without payload of a function that has an argspec
                case["argless"] += 1
            else:
                p = payload(fn, False)
                seen_payload = seen_payload or p != 0
            recs.append(("E", t, d, fn, p))
            stack.append(fn)
        else:
            fn = stack.pop()
            recs.append(("X", t, len(stack), fn, 0 if argless else payload(fn, True)))
    if not open_end:
        while stack:
            t += step()
            fn = stack.pop()
            recs.append(("X", t, len(stack), fn, 0 if argless else payload(fn, True)))
    return recs, len(stack)


def gen_case(rng, idx, tier, group):
    ntask = rng.choice([1, 1, 2, 2, 3, 4])
    ties = rng.random() < 0.35
    big = tier == "thorough" and rng.random() < 0.15
    case = {"idx": idx, "group": group, "payloads": [], "args": rng.random() < 0.6, "argless": 0}
    case["lang"] = "lua" if (group != "argless" and rng.random() < (0.35 if group in ("args", "oct") else 0.2) and HAVE_LUA) else "py"
    if group in ("args", "argless", "oct"):
        case["args"] = True
    case["specs"] = gen_specs(rng, group)
    if ties:
        grid = rng.choice([1, 10])

        def step():
            return grid * rng.choice([0, 0, 1, 1, 2])
    else:
        def step():
            x = rng.random()
            if x < 0.85:
                return rng.randint(1, 60)
            if x < 0.97:
                return rng.randint(100, 900000)
            return rng.randint(10 ** 6, 5 * 10 ** 9)
    tids = rng.sample(range(100, 30000), ntask)
    tasks = []
    argless = 0.6 if group == "argless" else 0.0
    for k in range(ntask):
        nrec = rng.choice([2, 4, 8, 14, 24] + ([150] if big else []))
        maxdepth = rng.choice([1, 2, 3, 5, 7] + ([30] if big else []))
        recs, nopen = gen_task(rng, case, T0 + rng.randint(0, 40) * (grid if ties else 1), step, nrec, maxdepth,
                               rng.random() < 0.3, argless)
        tasks.append({"tid": tids[k], "recs": recs, "open": nopen})
    if group in ("argless", "args", "oct"):
        # make sure the interesting shapes are there: every function with a spec is called once more at the end
        # of task 0 (argless: with a payload first, then an ENTRY without payload)
        t = max([r[1] for tk in tasks for r in tk["recs"]] + [T0]) + 10
        lua = case["lang"] == "lua"
        extra = []
        for f in sorted(case["specs"]):
            sp = case["specs"][f]
            pa = pr = 0
            if sp["args"]:
                case["payloads"].append({"fn": f, "ret": False, "vals": [rand_value(rng, s, lua) for s in sp["args"]]})
                pa = len(case["payloads"])
            if sp["ret"] and group != "argless":
                case["payloads"].append({"fn": f, "ret": True, "vals": [rand_value(rng, sp["ret"], lua)]})
                pr = len(case["payloads"])
            extra += [("E", t, 0, f, pa), ("X", t + 7, 0, f, pr)]
            t += 20
            if group == "argless" and sp["args"]:
                extra += [("E", t, 0, f, 0), ("X", t + 9, 0, f, 0)]
                case["argless"] += 1
                t += 20
        if tasks[0]["open"]:
            tasks[0]["recs"] = []
            tasks[0]["open"] = 0
        tasks[0]["recs"] = tasks[0]["recs"] + extra
    case["tasks"] = tasks
    # options given to both commands
    o = {"F": [], "N": [], "D": None, "t": None, "noargs": False, "tid": None}
    if group not in ("argless", "oct"):
        if rng.random() < 0.35:
            o["F"] = rng.sample(range(NF), rng.choice([1, 1, 2]))
        if rng.random() < 0.35:
            o["N"] = [f for f in rng.sample(range(NF), rng.choice([1, 1, 2])) if f not in o["F"]]
        if rng.random() < 0.3:
            o["D"] = rng.randint(1, 4)
        if rng.random() < 0.3:
            o["t"] = rng.choice([1, 5, 10, 25, 60, 1000])
        if rng.random() < 0.1:
            o["noargs"] = True
        if ntask > 1 and rng.random() < 0.15:
            o["tid"] = sorted(rng.sample(range(ntask), rng.randint(1, ntask - 1)))
    if group == "args":
        o["noargs"] = False
        if rng.random() < 0.6:
            o["F"], o["N"], o["D"], o["t"], o["tid"] = [], [], None, None, None
    case["opts"] = o
    # the script's own function list
    funcs, matched = [], None
    r = rng.random()
    if group == "funcs" or (r < 0.3 and group not in ("args", "oct", "argless")):
        k = rng.choice([1, 1, 2, 3])
        sel = rng.sample(range(NF), k)
        if rng.random() < 0.3:
            funcs = ["^(%s)$" % "|".join(NAMES[f] for f in sel)]       # a regex (default pattern type)
        elif rng.random() < 0.2:
            funcs = [NAMES[f] for f in sel] + ["nosuchfunction"]
        else:
            funcs = [NAMES[f] for f in sel]
        matched = sorted(f for f in range(NF) if any(re.search(p, NAMES[f]) if re.search(r"[\^$|()]", p) else p == NAMES[f]
                                                      for p in funcs))
    case["funcs"], case["matched"] = funcs, matched
    case["merge"] = rng.random() < 0.5          # replay with leaf folding (default) or --no-merge
    return case



# ------------------------------------------------------------------ fix-up records (setjmp / longjmp / exec / fork)
def gen_fixup_case(rng, idx, tier):
    """Data whose depth in replay is not `number of open calls`: one task makes setjmp / longjmp (always to the
    jmp_buf armed last: replay keeps one global setjmp depth, finding C11-LONGJMP-DEPTH is about other
    targets), exec* and fork / vfork calls — recorded as calls of functions with these names, as the PLT
    hook records them —, forked children start with the EXIT of fork; 0-2 further ordinary tasks."""
    case = {"idx": idx, "group": "fixup", "payloads": [], "args": False, "argless": 0, "specs": {}, "fixups": True}
    case["lang"] = "lua" if (rng.random() < 0.3 and HAVE_LUA) else "py"
    fn_of = FN_OF_NAME
    tids = rng.sample(range(100, 30000), 8)
    tasks = []
    t = [T0 + rng.randint(0, 40)]

    def step():
        x = rng.random()
        t[0] += rng.randint(1, 60) if x < 0.9 else rng.randint(100, 900000)
        return t[0]
    recs, stack = [], []
    armed = None            # (depth of the setjmp call, open calls at that time): the jmp_buf armed last
    children = []
    nops = rng.choice([10, 16, 24, 40])
    maxdepth = rng.choice([3, 4, 6])
    want = {"l": rng.random() < 0.75, "e": rng.random() < 0.3, "f": rng.random() < 0.45}
    counts = {"s": 0, "l": 0, "e": 0, "f": 0}

    def E(fn):
        recs.append(("E", step(), len(stack), fn, 0))
        stack.append(fn)

    def X():
        fn = stack.pop()
        recs.append(("X", step(), len(stack), fn, 0))
    E(0)
    for _ in range(nops):
        acts = []
        if len(stack) < maxdepth:
            acts += ["call"] * 4
            if want["l"]:
                acts += ["setjmp"] * 2
            if want["f"] and counts["f"] < 2:
                acts += ["fork"]
        if len(stack) > 1:
            acts += ["ret"] * 3
        if armed and len(stack) >= armed[1] and want["l"]:
            acts += ["longjmp"] * (3 if len(stack) > armed[1] else 1)
        if want["e"] and counts["e"] < 1 and len(recs) > 4 and len(stack) >= 1:
            acts += ["exec"]
        a = rng.choice(acts or ["call"])
        if a == "call":
            E(stack[-1] if (stack and stack[-1] < NF and rng.random() < 0.15) else rng.randrange(1, NF))
        elif a == "ret":
            X()
            if armed and len(stack) < armed[1]:
                armed = None            # the function that called setjmp returned
        elif a == "setjmp":
            name = rng.choice(["setjmp", "setjmp", "_setjmp", "sigsetjmp"])
            E(fn_of[name])
            X()
            armed = (len(stack), len(stack), fn_of[name])
            counts["s"] += 1
        elif a == "longjmp":
            recs.append(("E", step(), len(stack), fn_of[rng.choice(["longjmp", "longjmp", "siglongjmp"])], 0))
            del stack[armed[1]:]
            recs.append(("X", step(), armed[0], armed[2], 0))      # the second return of setjmp
            counts["l"] += 1
        elif a == "fork":
            name = rng.choice(["fork", "fork", "vfork"])
            d = len(stack)
            E(fn_of[name])
            tf = t[0]
            inherited = list(stack[:-1])
            X()
            tx = t[0]
            children.append({"d": d, "fn": fn_of[name], "fork_time": tf, "first": rng.randint(tf + 1, tx + 5),
                             "inherited": inherited})
            counts["f"] += 1
        elif a == "exec":
            recs.append(("E", step(), len(stack), fn_of[rng.choice(["execve", "execl"])], 0))
            del stack[:]
            armed = None
            E(0)
            counts["e"] += 1
    open_end = rng.random() < 0.3
    if not open_end:
        while stack:
            X()
    tasks.append({"tid": tids[0], "recs": recs, "open": len(stack)})
    for ch in children:
        ct = [ch["first"]]

        def cstep():
            ct[0] += rng.randint(1, 60)
            return ct[0]
        crecs = [("X", ct[0], ch["d"], ch["fn"], 0)]
        cstack = list(ch["inherited"])
        base = len(cstack)
        for _ in range(rng.choice([0, 2, 4, 8])):
            if len(cstack) == base or (len(cstack) < base + 3 and rng.random() < 0.55):
                crecs.append(("E", cstep(), len(cstack), rng.randrange(1, NF), 0))
                cstack.append(crecs[-1][3])
            else:
                fn = cstack.pop()
                crecs.append(("X", cstep(), len(cstack), fn, 0))
        if rng.random() < 0.7:
            keep = rng.choice([0, 0, base]) if base else 0
            while len(cstack) > keep:
                fn = cstack.pop()
                crecs.append(("X", cstep(), len(cstack), fn, 0))
        tasks.append({"tid": tids[len(tasks)], "recs": crecs, "open": len(cstack), "parent": 0,
                      "fork_time": ch["fork_time"]})
    for _ in range(rng.choice([0, 0, 1, 2])):
        def pstep():
            return rng.randint(1, 60)
        precs, nopen = gen_task(rng, case, T0 + rng.randint(0, 400), pstep, rng.choice([4, 8, 14]), rng.choice([2, 3, 5]),
                                rng.random() < 0.3)
        tasks.append({"tid": tids[len(tasks)], "recs": precs, "open": nopen})
    case["tasks"] = tasks
    case["fix_counts"] = counts
    o = {"F": [], "N": [], "D": None, "t": None, "noargs": False, "tid": None}
    if rng.random() < 0.3:
        r = rng.random()
        if r < 0.4:
            o["F"] = rng.sample(range(NF), rng.choice([1, 2]))
        elif r < 0.7:
            o["N"] = rng.sample(range(1, NF), 1)
        else:
            o["D"] = rng.randint(2, 4)
    case["opts"] = o
    funcs, matched = [], None
    if rng.random() < 0.2:
        sel = rng.sample(range(N_ALL), rng.choice([2, 3, 5]))
        funcs = [ALLNAMES[f] for f in sel]
        matched = sorted(sel)
    case["funcs"], case["matched"] = funcs, matched
    # replay's leaf-folding look-ahead (fstack_skip) passes over the records a filter rejects without
    # applying their fix-ups (fstack_entry is not called for them), `uftrace script` has no look-ahead:
    # and it takes the next EXIT of the task at the same depth for the return of the call it folds, also the
    # second return of a setjmp after a longjmp inside a -N region: with -F / -N / -D the comparison is with
    # --no-merge (the same differences exist between the two replay modes; they are replay's, not the script's)
    case["merge"] = rng.random() < 0.5 and not (o["F"] or o["N"] or o["D"])
    return case


# ------------------------------------------------------------------ exec chains: one address, two names
def gen_exec2_case(rng, idx, tier):
    """One task that execs once or twice (prog -> stage2 [-> prog]): task.txt has a SESS line per stage, every
    stage its own map and symbol file, and the same addresses carry different names in prog.sym and stage2.sym.
    UFTRACE_FUNCS lists names of both programs so that for some address exactly one of its two names is listed;
    every stage calls these addresses."""
    case = {"idx": idx, "group": "exec2", "payloads": [], "args": False, "argless": 0, "specs": {}, "fixups": True, "exec2": True}
    case["lang"] = "lua" if (rng.random() < 0.4 and HAVE_LUA) else "py"
    tids = rng.sample(range(100, 30000), 1)
    t = [T0 + rng.randint(0, 40)]

    def step():
        x = rng.random()
        t[0] += rng.randint(1, 60) if x < 0.9 else rng.randint(100, 900000)
        return t[0]
    nstage = rng.choice([2, 2, 3])
    # the function list: slots listed under their first name only, under their second name only, under both, not at all
    slots = list(range(1, NF))
    rng.shuffle(slots)
    only1, only2 = slots[:rng.choice([1, 2])], slots[2:2 + rng.choice([1, 2])]
    both = slots[4:4 + rng.choice([0, 1])]
    sel = sorted(only1 + both) + sorted(fn2(k) for k in only2 + both)
    if rng.random() < 0.3:
        sel.append(0)
    crit = only1 + only2 + both
    recs, stack = [], []
    sess = []                # start time of the sessions after the first

    def E(fn):
        recs.append(("E", step(), len(stack), fn, 0))
        stack.append(fn)

    def X():
        fn = stack.pop()
        recs.append(("X", step(), len(stack), fn, 0))
    E(0)
    for stage in range(nstage):
        F = (lambda k: k) if stage % 2 == 0 else fn2
        todo = list(crit)
        rng.shuffle(todo)
        maxdepth = rng.choice([3, 4, 6])
        for _ in range(rng.choice([8, 14, 20])):
            if len(stack) < maxdepth and (len(stack) <= 1 or rng.random() < 0.55):
                E(F(todo.pop() if (todo and rng.random() < 0.6) else rng.randrange(1, NF)))
            else:
                X()
        for k in todo:           # every critical address is called in every stage
            E(F(k))
            X()
        if stage + 1 < nstage:
            recs.append(("E", step(), len(stack), FN_OF_NAME[rng.choice(["execve", "execl"])], 0))
            del stack[:]
            t[0] += 1
            sess.append(t[0])       # the new program's session starts after the exec call and before its first record
            t[0] += 1
            E(0)
    if rng.random() < 0.75:
        while stack:
            X()
    tasks = [{"tid": tids[0], "recs": recs, "open": len(stack)}]
    case["tasks"] = tasks
    case["sessions"] = sess
    case["fix_counts"] = {"s": 0, "l": 0, "e": nstage - 1, "f": 0}
    o = {"F": [], "N": [], "D": None, "t": None, "noargs": False, "tid": None}
    if rng.random() < 0.2:
        o["D"] = rng.randint(2, 4)
    case["opts"] = o
    r = rng.random()
    if r < 0.25:
        funcs = ["^(%s)$" % "|".join(ALLNAMES[f] for f in sel)]
    else:
        funcs = [ALLNAMES[f] for f in sel] + (["nosuchfunction"] if r < 0.4 else [])
    case["funcs"], case["matched"] = funcs, sorted(sel)
    case["slots"] = {"listed_under_first_name_only": [NAMES[k] + "/" + S2NAMES[k] for k in only1],
                     "listed_under_second_name_only": [NAMES[k] + "/" + S2NAMES[k] for k in only2],
                     "listed_under_both": [NAMES[k] + "/" + S2NAMES[k] for k in both]}
    case["merge"] = rng.random() < 0.5 and not o["D"]
    return case


def exec2_overrides(case, files):
    """the files of the later sessions: SESS (+ TASK, as the new program's libmcount sends both) lines in task.txt,
    a map per session, the second program's symbol file"""
    pid = case["tasks"][0]["tid"]
    out = {}
    txt = files["task.txt"].decode()
    for j, st in enumerate(case["sessions"]):
        second = j % 2 == 0
        sid = SID2 if j == 0 else SID3
        exe = EXE2 if second else D.EXE
        txt += "SESS timestamp=%s pid=%d sid=%s exename=\"%s\"\n" % (D.ts(st), pid, sid, exe)
        txt += "TASK timestamp=%s tid=%d pid=%d\n" % (D.ts(st), pid, pid)
        m = files["sid-%s.map" % D.SID].decode("utf-8", "surrogateescape")
        out["sid-%s.map" % sid] = m.replace(D.EXE, exe).encode("utf-8", "surrogateescape")
    sym = ["# symbols: %d" % len(SYMS2), "# path name: " + EXE2, "# build-id: "]
    for rel, size, name in sorted(SYMS2):
        sym.append("%016x %08x T %s" % (rel, size, name))
    out[os.path.basename(EXE2) + ".sym"] = ("\n".join(sym) + "\n").encode()
    out["task.txt"] = txt.encode()
    return out


PY_SCRIPT = '''import json
%s
def _a(v):
    try:
        return json.dumps(v)
    except Exception as e:
        return json.dumps("<unprintable: %%s>" %% type(e).__name__)
def uftrace_begin(ctx):
    print("B %%d %%d" %% (1 if ctx["record"] else 0, len(ctx["cmds"])))
def uftrace_entry(ctx):
    print("E %%d %%d %%d %%d %%s %%s" %% (ctx["tid"], ctx["depth"], ctx["timestamp"], ctx["address"], ctx["name"], _a(ctx.get("args"))))
def uftrace_exit(ctx):
    print("X %%d %%d %%d %%d %%d %%s %%s" %% (ctx["tid"], ctx["depth"], ctx["timestamp"], ctx["duration"], ctx["address"], ctx["name"], _a(ctx.get("retval"))))
def uftrace_end():
    print("END")
'''

LUA_SCRIPT = '''%s
function ser(v)
  if type(v) == "table" then
    local t = {}
    for i, x in ipairs(v) do t[#t + 1] = ser(x) end
    return "[" .. table.concat(t, ", ") .. "]"
  elseif type(v) == "number" then return string.format("%%.17g", v)
  elseif v == nil then return "null"
  else return '"' .. tostring(v) .. '"' end
end
function uftrace_begin(ctx) print(string.format("B %%d 0", ctx["record"] and 1 or 0)) end
function uftrace_entry(ctx) print(string.format("E %%d %%d %%.0f %%.0f %%s %%s", ctx["tid"], ctx["depth"], ctx["timestamp"], ctx["address"], ctx["name"], ser(ctx["args"]))) end
function uftrace_exit(ctx) print(string.format("X %%d %%d %%.0f %%.0f %%.0f %%s %%s", ctx["tid"], ctx["depth"], ctx["timestamp"], ctx["duration"], ctx["address"], ctx["name"], ser(ctx["retval"]))) end
function uftrace_end() print("END") end
'''


def script_text(case):
    if case["lang"] == "py":
        fl = ("UFTRACE_FUNCS = %s" % json.dumps(case["funcs"])) if case["funcs"] else ""
        return PY_SCRIPT % fl
    fl = ("UFTRACE_FUNCS = { %s }" % ", ".join(json.dumps(f) for f in case["funcs"])) if case["funcs"] else ""
    return LUA_SCRIPT % fl


def payload_bytes(case, tok):
    if not tok:
        return b""
    p = case["payloads"][tok - 1]
    return enc_payload(specs_of(case, p["fn"], p["ret"]), p["vals"])


def write_case(case, d):
    shutil.rmtree(d, ignore_errors=True)
    tasks = []
    pid = case["tasks"][0]["tid"]
    for t in case["tasks"]:
        recs = [D.Rec(tm, typ, dep, ADDR[fn], payload_bytes(case, p)) for typ, tm, dep, fn, p in t["recs"]]
        if t.get("parent") is not None:          # a forked child: its own process, FORK line in task.txt
            tasks.append(D.Task(t["tid"], recs, pid=t["tid"], ppid=case["tasks"][t["parent"]]["tid"],
                                fork_time=t["fork_time"]))
        else:
            tasks.append(D.Task(t["tid"], recs, pid=pid))
    if case["args"] and case["specs"]:
        dd = ArgDir(SYMS, tasks)
        dd.specs = case["specs"]
    else:
        dd = D.DataDir(SYMS, tasks)
    dd.write(d, overrides=exec2_overrides(case, dd.files()) if case.get("exec2") else None)
    ext = ".py" if case["lang"] == "py" else ".lua"
    sp = os.path.join(d, "c18log" + ext)
    with open(sp, "w") as f:
        f.write(script_text(case))
    return sp


def cmd_opts(case):
    o = case["opts"]
    a = []
    for f in o["F"]:
        a += ["-F", ALLNAMES[f]]
    for f in o["N"]:
        a += ["-N", ALLNAMES[f]]
    if o["D"] is not None:
        a += ["-D", str(o["D"])]
    if o["t"] is not None:
        a += ["-t", ("%dus" % (o["t"] // 1000)) if o["t"] % 1000 == 0 else ("%dns" % o["t"])]
    if o["noargs"]:
        a += ["--no-args"]
    if o["tid"] is not None:
        a += ["--tid", ",".join(str(case["tasks"][i]["tid"]) for i in o["tid"])]
    return a


def model_line(case, cmd, argsfixed=1, funcs=True, exitaddr=1):
    o = case["opts"]

    def lst(l):
        return ",".join(str(x) for x in l) if l else "-"
    trig = sorted(int(f) for f, sp in case["specs"].items() if sp["args"]) if case["args"] else []
    w = [cmd, "depth=%d" % (o["D"] if o["D"] is not None else 1024), "modein=%d" % (1 if o["F"] else 0),
         "thr=%d" % (o["t"] or 0), "showargs=%d" % (0 if o["noargs"] else 1), "argsfixed=%d" % argsfixed,
         "exitaddr=%d" % exitaddr,
         "F=" + lst(o["F"]), "N=" + lst(o["N"]),
         "funcs=" + (lst(case["matched"] if case["matched"] else [len(ALLNAMES) + 7 + NF]) if (funcs and case["funcs"]) else "-"),
         "argtrig=" + lst(trig)]
    if case.get("fixups"):
        w.append("fix=" + ",".join("%d:%s" % (f, k) for f, k in sorted(FIX_FNS.items())))
        par = ["%d:%d" % (i, t["parent"]) for i, t in enumerate(case["tasks"]) if t.get("parent") is not None]
        if par:
            w.append("parent=" + ",".join(par))
    for i, t in enumerate(case["tasks"]):
        w.append("|")
        if o["tid"] is not None and i not in o["tid"]:
            continue
        w += ["%s:%d:%d:%d:%d" % tuple(r) for r in t["recs"]]
    return " ".join(w)


# ------------------------------------------------------------------ canonical events
# ('B',) ('END',) ('E', tid, depth, time, addr, name, ARGS) ('X', tid, depth, time, dur, addr, name, RET)
# ARGS / RET: None (no key / nothing printed) or the list of canonical values (canon_truth & co.)
def ev_model(case, line):
    out = []
    tids = [t["tid"] for t in case["tasks"]]
    for tok in line.split():
        if tok in ("B", "END", "-"):
            if tok != "-":
                out.append((tok,))
            continue
        p = tok.split(":")
        if p[0] == "E":
            _, tid, dep, tm, fn, a = p
            out.append(("E", tids[int(tid)], int(dep), int(tm), ADDR[int(fn)], ALLNAMES[int(fn)], canon_token_list(case, int(a))))
        else:
            _, tid, dep, tm, dur, fn, a = p
            if fn == "none":            # the address of a frame slot no ENTRY has filled (pre-fix replay model only)
                out.append(("X", tids[int(tid)], int(dep), int(tm), int(dur), 0, None, canon_token_list(case, int(a))))
                continue
            out.append(("X", tids[int(tid)], int(dep), int(tm), int(dur), ADDR[int(fn)], ALLNAMES[int(fn)],
                        canon_token_list(case, int(a))))
    return out


def ev_script(case, text):
    out, bad = [], []
    for line in text.split("\n"):
        if not line:
            continue
        p = line.split(" ")
        try:
            if p[0] == "B":
                out.append(("B",))
                if p[1] != "0":
                    bad.append("uftrace_begin: ctx['record'] is true for the script command")
            elif p[0] == "END":
                out.append(("END",))
            elif p[0] == "E":
                fn = FN_OF_NAME.get(p[5])
                out.append(("E", int(p[1]), int(p[2]), int(p[3]), int(p[4]), p[5],
                            canon_script_list(specs_of(case, fn, False), " ".join(p[6:]), False)))
            elif p[0] == "X":
                fn = FN_OF_NAME.get(p[6])
                out.append(("X", int(p[1]), int(p[2]), int(p[3]), int(p[4]), int(p[5]), p[6],
                            canon_script_list(specs_of(case, fn, True), " ".join(p[7:]), True)))
            else:
                bad.append("unparsed script line %r" % line)
        except (ValueError, IndexError):
            bad.append("unparsed script line %r" % line)
    return out, bad


RLINE = re.compile(r"^\s*(?:(\d+\.\d+) (us|ms| s| m| h))?\s*\[\s*(\d+)\]\s+([0-9a-f]+)\s+(\d+)\.(\d{9}) \| ( *)(.*)$")
R_E = re.compile(r"^([A-Za-z_]\w*)\((.*)\) \{$")
R_L = re.compile(r"^([A-Za-z_]\w*)\((.*)\)(?: = (.*))?;$")
R_X = re.compile(r"^\}(?: = (.*);)? /\* ([A-Za-z_]\w*) \*/$")


def ev_replay(case, text):
    """`uftrace replay -f duration,tid,addr,time` -> unfolded events; the duration is the printed text, the
    timestamp of a folded exit is None"""
    out, bad = [], []

    def A(name, txt, is_ret):
        return canon_replay_list(specs_of(case, FN_OF_NAME.get(name), is_ret), txt)
    for row in text.split("\n"):
        if not row or row.startswith("#"):
            continue
        if row.startswith("uftrace stopped tracing with remaining functions"):
            break
        m = RLINE.match(row)
        if not m:
            bad.append("unparsed replay line %r" % row)
            continue
        dur = ("%s %s" % (m.group(1), m.group(2))).strip() if m.group(1) else ""
        tid, addr = int(m.group(3)), int(m.group(4), 16)
        tm = int(m.group(5)) * 10 ** 9 + int(m.group(6))
        depth, body = len(m.group(7)) // 2, m.group(8)
        if len(m.group(7)) % 2:
            bad.append("odd indentation %r" % row)
        e = R_E.match(body)
        if e:
            out.append(("E", tid, depth, tm, addr, e.group(1), A(e.group(1), e.group(2), False)))
            continue
        x = R_X.match(body)
        if x:
            out.append(("X", tid, depth, tm, dur, addr, x.group(2), A(x.group(2), x.group(1), True)))
            continue
        l = R_L.match(body)
        if l:
            out.append(("E", tid, depth, tm, addr, l.group(1), A(l.group(1), l.group(2), False)))
            out.append(("X", tid, depth, None, dur, addr, l.group(1), A(l.group(1), l.group(3), True)))
            continue
        bad.append("unparsed replay graph part %r" % row)
    return out, bad


def as_replay(evs):
    """script / model events in the form of ev_replay(): durations as printed text"""
    return [(e[:4] + (fmt_unit(e[4]),) + e[5:]) if e[0] == "X" else e for e in evs if e[0] in "EX"]


def same_as_replay(s, r):
    """an event against the replay event it corresponds to; None = equal, else the name of the field"""
    if s[0] != r[0]:
        return "kind"
    if s[0] == "E":
        names = ["kind", "tid", "depth", "timestamp", "address", "name", "args"]
    else:
        names = ["kind", "tid", "depth", "timestamp", "duration", "address", "name", "retval"]
    for n, a, b in zip(names, s, r):
        if n == "timestamp" and (a is None or b is None):       # the exit of a folded leaf has no line of its own
            continue
        if a != b:
            return n
    return None


def pairing(cbs, tasks_wf=True):
    """entry/exit callbacks are properly nested per task: returns None or a description"""
    st = {}
    for c in cbs:
        if c[0] == "E":
            st.setdefault(c[1], []).append(c)
        elif c[0] == "X":
            s = st.setdefault(c[1], [])
            if not s:
                return "uftrace_exit of %s (tid %d) without an open uftrace_entry" % (c[6], c[1])
            e = s.pop()
            if e[5] != c[6] or e[4] != c[5] or e[2] != c[2] or c[3] - e[3] != c[4]:
                return "uftrace_exit %r does not close the innermost uftrace_entry %r" % (c, e)
    return None


def only_stale_args(cbs, model):
    """the script differs from the (repaired) model only by `args` present where the model has none"""
    if len(cbs) != len(model):
        return False
    diff = False
    for a, b in zip(cbs, model):
        if a == b:
            continue
        if a[0] == "E" and b[0] == "E" and a[:6] == b[:6] and b[6] is None and a[6] is not None:
            diff = True
            continue
        return False
    return diff


def has_oct(case):
    return any(s.get("fmt") == "o" for sp in case["specs"].values() for s in sp["args"] + ([sp["ret"]] if sp["ret"] else []))


# ------------------------------------------------------------------ H3 part
def run_h3(ctx, uftrace, known):
    rng = ctx.rng
    quick = ctx.tier == "quick"
    plan = [("plain", 150 if quick else 8000), ("funcs", 50 if quick else 2500), ("args", 70 if quick else 4000),
            ("argless", 12 if quick else 200), ("oct", 8 if quick else 100), ("fixup", 90 if quick else 4000),
            ("exec2", 40 if quick else 1500)]
    cases = []
    for group, n in plan:
        for _ in range(n):
            if group == "fixup":
                cases.append(gen_fixup_case(rng, len(cases), ctx.tier))
            elif group == "exec2":
                cases.append(gen_exec2_case(rng, len(cases), ctx.tier))
            else:
                cases.append(gen_case(rng, len(cases), ctx.tier, group))
    root = os.path.join(ctx.scratch, "h3")
    os.makedirs(root, exist_ok=True)

    def one(case):
        d = os.path.join(root, "c%d" % case["idx"])
        sp = write_case(case, d)
        opts = cmd_opts(case)
        rc1, out1, err1 = D.run_uftrace(uftrace, "script", d, ["-S", sp] + opts)
        rargs = ["-f", "duration,tid,addr,time"] + ([] if case["merge"] else ["--no-merge"])
        rc2, out2, err2 = D.run_uftrace(uftrace, "replay", d, rargs + opts)
        shutil.rmtree(d, ignore_errors=True)
        return (rc1, out1, err1, rc2, out2, err2)

    with ThreadPoolExecutor(16) as ex:
        res = list(ex.map(one, cases))

    mlines = []
    NM = 5          # model lines per case
    for c in cases:
        mlines.append(model_line(c, "RUN", 1))
        mlines.append(model_line(c, "RUN", 0))
        mlines.append(model_line(c, "SHOW", 1))
        mlines.append(model_line(c, "RUN", 1, funcs=False))
        mlines.append(model_line(c, "SHOW", 1, exitaddr=0))
    mout = C.run_model("C18", mlines)

    st = {"cases": len(cases), "callbacks": 0, "script_vs_model_bad": 0, "replay_vs_model_bad": 0, "monitor_bad": 0,
          "prefix_args": 0, "oct_defect": 0, "lua": 0, "with_funcs": 0, "with_filters": 0, "with_args": 0, "open_calls": 0,
          "argless_entries": 0, "folded": 0, "arg_values_compared": 0, "arg_kinds": {}, "str_len_mod4": [0, 0, 0, 0],
          "multi_arg_payloads": 0, "fixup_cases": 0, "fixup_records": {"s": 0, "l": 0, "e": 0, "f": 0},
          "fork_children": 0, "longjmp_entry_callbacks": 0, "prefix_exit_addr": 0, "exec2_cases": 0, "exec2_sessions": 0,
          "exec2_callbacks_second_name": 0}
    distinct = set()
    samples = []
    reported = {"": 0, F_OCT: 0}
    for i, (case, r) in enumerate(zip(cases, res)):
        rc1, out1, err1, rc2, out2, err2 = r
        lua = case["lang"] == "lua"
        st["lua"] += lua
        st["with_funcs"] += bool(case["funcs"])
        o = case["opts"]
        st["with_filters"] += bool(o["F"] or o["N"] or o["D"] or o["t"] or o["tid"])
        st["with_args"] += case["args"]
        st["open_calls"] += sum(t["open"] for t in case["tasks"])
        st["argless_entries"] += case["argless"]
        if case.get("exec2"):
            st["exec2_cases"] += 1
            st["exec2_sessions"] += 1 + len(case["sessions"])
        if case.get("fixups"):
            st["fixup_cases"] += 1
            for k, v in case["fix_counts"].items():
                st["fixup_records"][k] += v
            st["fork_children"] += sum(1 for t in case["tasks"] if t.get("parent") is not None)
        m_fixed = ev_model(case, mout[NM * i])
        m_show = ev_model(case, mout[NM * i + 2])
        m_all = ev_model(case, mout[NM * i + 3])
        # replay before the repair of F-C18-EXIT-ADDR: the line is about the same function (name), the address
        # printed is the one left in the frame's slot
        m_show_pre = [(a[:5] + (b[5],) + a[6:]) if a[0] == "X" else a
                      for a, b in zip(m_show, ev_model(case, mout[NM * i + 4]))]
        cbs, bad1 = ev_script(case, out1)
        rep, bad2 = ev_replay(case, out2)
        st["callbacks"] += len(cbs)
        if case.get("exec2"):
            st["exec2_callbacks_second_name"] += sum(1 for c in cbs if c[0] == "E" and FN_OF_NAME.get(c[5], 0) >= N_ALL)
        st["longjmp_entry_callbacks"] += sum(1 for c in cbs if c[0] == "E" and FIXKIND.get(c[5]) == "l")
        st["folded"] += sum(1 for x in rep if x[0] == "X" and x[3] is None)
        for c in cbs:
            if c[0] in "EX" and c[-1]:
                st["arg_values_compared"] += len(c[-1])
                st["multi_arg_payloads"] += len(c[-1]) > 1
                for k, v in c[-1]:
                    st["arg_kinds"][k] = st["arg_kinds"].get(k, 0) + 1
                    if k == "str":
                        st["str_len_mod4"][len(v) % 4] += 1
        if len(m_fixed) > 2:
            distinct.add(mlines[NM * i] + "#" + json.dumps(case["specs"], sort_keys=True) + case["lang"])
        if len(samples) < 3 and i % 53 == 7:
            samples.append({"options": cmd_opts(case), "UFTRACE_FUNCS": case["funcs"], "lang": case["lang"],
                            "specs": {NAMES[int(f)]: [s["text"] for s in sp["args"]] + ["= " + sp["ret"]["text"] if sp["ret"] else ""]
                                      for f, sp in case["specs"].items()},
                            "model_input": mlines[NM * i][:400], "script_output": out1[:300], "model": mout[NM * i][:300]})
        problems = []
        if rc1 != 0 or rc2 != 0:
            problems.append("uftrace script rc=%s replay rc=%s: %s %s" % (rc1, rc2, err1[-200:], err2[-200:]))
        problems += bad1 + bad2
        # ---- the property on the implementation's output
        mon = None
        kinds = [c[0] for c in cbs]
        if kinds.count("B") != 1 or kinds.count("END") != 1 or not kinds or kinds[0] != "B" or kinds[-1] != "END":
            mon = "uftrace_begin / uftrace_end are not called exactly once, first and last"
        body = [c for c in cbs if c[0] in "EX"]
        want = rep if case["matched"] is None else [x for x in rep if FN_OF_NAME.get(x[5] if x[0] == "E" else x[6]) in case["matched"]]
        got = as_replay(body)
        args_only = False
        exit_addr = None
        if mon is None:
            if len(got) != len(want):
                mon = "the script got %d entry/exit callbacks, replay shows %d entry/exit lines%s" % (
                    len(got), len(want), " of the UFTRACE_FUNCS functions" if case["funcs"] else "")
            else:
                for k, (s, w) in enumerate(zip(got, want)):
                    f = same_as_replay(s, w)
                    if f == "address" and s[0] == "X" and s[5] == ADDR[FN_OF_NAME.get(s[6], 0)] and s[6] == w[6] and \
                            same_as_replay(s, w[:5] + (s[5],) + w[6:]) is None:
                        # the callback carries the address of the function both name; the address replay prints on
                        # the same line is another one (shape of finding F-C18-EXIT-ADDR): noted, the other fields
                        # of the remaining lines are still compared
                        exit_addr = exit_addr or (k, s, w)
                        continue
                    if f:
                        mon = "callback #%d %r differs from the replay line %r in %s" % (k, s, w, f)
                        args_only = f in ("args", "retval")
                        break
        if mon is None and case["funcs"]:
            outside = [c for c in body if FN_OF_NAME.get(c[5] if c[0] == "E" else c[6]) not in case["matched"]]
            if outside:
                mon = "callback for %r, which is not in UFTRACE_FUNCS" % (outside[0],)
        if mon is None and not case.get("fixups"):
            mon = pairing(body)          # (after a longjmp / exec an exit does not close the innermost open entry)
        # ---- correspondence: script against the model's callbacks, replay against the model's shown lines
        sm = cbs == m_fixed
        if not sm:
            st["script_vs_model_bad"] += 1
        mrep = as_replay(m_show)
        rm = len(mrep) == len(rep) and all(same_as_replay(a, b) is None for a, b in zip(mrep, rep))
        mrep_pre = as_replay(m_show_pre)
        rm_pre = len(mrep_pre) == len(rep) and all(same_as_replay(a, b) is None for a, b in zip(mrep_pre, rep))
        if not rm and rm_pre:
            # replay follows the model of cmds/replay.c before the repair of F-C18-EXIT-ADDR
            st["prefix_exit_addr"] += 1
            rm = True
        if exit_addr and rm_pre:
            f = next((k for k in known if k.get("id") == F_EXITADDR), None)
            what = ("finding=%s uftrace replay -f addr prints the address left in the frame's slot on an EXIT line (0 for the "
                    "first record of a forked child, another function after a longjmp); the script's uftrace_exit gets the "
                    "address of the function that returns (implementation matches the pre-fix model)" % F_EXITADDR)
            if f is not None:
                C.known(ctx, f, what)
            elif not reported.get(F_EXITADDR):
                reported[F_EXITADDR] = 1
                k, sline, wline = exit_addr
                C.violation(ctx, "h3-exit-addr-case%d" % case["idx"], {
                    "kind": "property-violated-on-implementation", "finding": F_EXITADDR,
                    "what": "uftrace_exit callback #%d %r: replay -f addr shows %r for the same record (address %#x instead "
                            "of %#x)" % (k, sline, wline, wline[5], sline[5]),
                    "defect": what, "theorem": "c18_depth_matches_replay_fixups / c18_prefix_exit_addr_witness",
                    "proposed_fix": "proposed_fixes/C18-EXIT-ADDR.diff",
                    "options": cmd_opts(case), "UFTRACE_FUNCS": case["funcs"], "lang": case["lang"], "case": case,
                    "script_output": out1[:3000], "replay_output": out2[:3000],
                    "model_input": mlines[NM * i], "model_shown_prefix": mout[NM * i + 4]})
        elif exit_addr and mon is None:
            k, sline, wline = exit_addr
            mon = "callback #%d %r differs from the replay line %r in address" % (k, sline, wline)
        if not rm:
            st["replay_vs_model_bad"] += 1
        # the funcs theorem on the model's own output (sanity of the tie): filtered run = filter of the full run
        if case["matched"] is not None:
            filt = [c for c in m_all if c[0] not in "EX" or FN_OF_NAME[c[5] if c[0] == "E" else c[6]] in case["matched"]]
            if filt != m_fixed:
                problems.append("model: run with funcs differs from the filtered full run")
        if mon:
            st["monitor_bad"] += 1
        finding = None
        if not sm and rm and only_stale_args(cbs, m_fixed) and case["argless"]:
            finding = F_ARGS
            st["prefix_args"] += 1
        elif (mon or not sm) and rm and has_oct(case) and not (OCT_CASE["python" if not lua else "lua"]):
            finding = F_OCT                 # the binding has no `case ARG_FMT_OCT` (seen by the translator)
            st["oct_defect"] += 1
        if finding:
            f = next((k for k in known if k.get("id") == finding), None)
            if f is not None:
                C.known(ctx, f, {
                    F_ARGS: "finding=%s uftrace script passes the stale argument buffer to uftrace_entry for an ENTRY "
                            "record without payload (implementation matches the pre-fix model)" % F_ARGS,
                    F_OCT: "finding=%s the python / lua bindings have no case for ARG_FMT_OCT: an /o argument is skipped "
                           "without advancing, the following arguments are decoded from the wrong offset" % F_OCT}[finding])
                continue
        key = F_OCT if finding == F_OCT else ""
        if (mon or not sm or not rm or problems) and reported[key] < (2 if key else 3):
            reported[key] += 1
            C.violation(ctx, "h3-case%d" % case["idx"], {
                "kind": "property-violated-on-implementation" if mon else "model-code-disagreement",
                "what": mon or ("script output differs from the model" if not sm else
                                "replay output differs from the model" if not rm else problems[0]),
                "finding": finding,
                "theorem": ("c18_args_decode_roundtrip_%s" % ("lua" if lua else "python")) if args_only else
                           (("c18_depth_matches_replay_fixups" if case.get("fixups") else "c18_callbacks_eq_replay")
                            if mon else None),
                "options": cmd_opts(case), "UFTRACE_FUNCS": case["funcs"], "lang": case["lang"],
                "argspecs": {NAMES[int(f)]: {"args": [s["text"] for s in sp["args"]], "retval": sp["ret"]["text"] if sp["ret"] else None}
                             for f, sp in case["specs"].items()} if case["args"] else None,
                "case": case,
                "script_output": out1[:3000], "replay_output": out2[:3000], "stderr": (err1 + err2)[-500:],
                "model_input": mlines[NM * i], "model_output": mout[NM * i], "model_shown": mout[NM * i + 2],
                "other_problems": problems[:5],
            }, no_failing_input=not mon)
    st["distinct"] = len(distinct)
    st["samples"] = samples
    return st


# ------------------------------------------------------------------ H1 part (record time, in process)
def gen_h1_case(rng, idx, tier):
    from lib import mcgen
    o = mcgen.rand_opts(rng, rich=True)
    fns = list(range(mcgen.NF)) + [8]
    # make trace_off / trace_on triggers frequent: they are what separates the hooks from the records
    r = rng.random()
    if r < 0.55:
        used = {f for f, _ in o.T}
        cand = [f for f in fns if f not in used]
        k = rng.sample(cand, min(2, len(cand)))
        if k:
            o.T.append((k[0], [("trace_off", None)]))
        if len(k) > 1 and rng.random() < 0.6:
            o.T.append((k[1], [("trace_on", None)]))
    funcs = rng.sample(fns, rng.randint(1, 3)) if rng.random() < 0.3 else []
    nthr = rng.choice([1, 1, 2, 3])
    kinds = {f: rng.choice(["pg", "cyg"]) for f in fns}
    mode = rng.choice(["pg", "cyg", "mixed"])
    nops = rng.choice([6, 12, 20, 40] + ([200] if tier == "thorough" else []))
    maxdepth = rng.choice([2, 3, 4, 6])
    complete = rng.random() < 0.8
    ops = []
    now = 1000
    stacks = [[] for _ in range(nthr)]
    cur = [-1]

    def emit(k, line):
        if k != cur[0]:
            ops.append("TH %d" % k)
            cur[0] = k
        ops.append("T %d" % now)
        ops.append(line)
    for _ in range(nops):
        k = rng.randrange(nthr)
        st = stacks[k]
        if not st:
            act = "E"
        elif len(st) >= maxdepth:
            act = "X"
        else:
            act = "E" if rng.random() < 0.55 else "X"
        now += rng.choice([0, 1, 2, 5, 10, 11, 30])
        if act == "E":
            fn = st[-1] if (st and rng.random() < 0.2) else rng.choice(fns)
            st.append(fn)
            emit(k, "E %s %d" % (mode if mode != "mixed" else kinds[fn], fn))
        else:
            st.pop()
            emit(k, "X")
    if complete:
        for k in range(nthr):
            while stacks[k]:
                now += rng.choice([1, 3, 10])
                stacks[k].pop()
                emit(k, "X")
    ops.append("END")
    return {"idx": idx, "opts": o, "funcs": funcs, "ops": ops, "nthr": nthr, "complete": complete,
            "open": [len(s) for s in stacks]}


def h1_monitor(case, hooks_per_op):
    """pairing per thread of the implementation's hook log; returns None or a description"""
    cur = 0
    st = {}
    i = 0
    for op in case["ops"]:
        if op.startswith("TH "):
            cur = int(op.split()[1])
        hk = hooks_per_op[i] if i < len(hooks_per_op) else []
        i += 1
        for h in hk:
            p = h.split(":")
            if p[-1] != "1":
                return "script context with a wrong tid or name: %s" % h
            s = st.setdefault(cur, [])
            if p[0] == "E":
                s.append(p[1:4])
            else:
                if not s:
                    return "thread %d: uftrace_exit %s without an open uftrace_entry" % (cur, h)
                e = s.pop()
                if e != p[1:4]:
                    return "thread %d: uftrace_exit %s does not close the innermost uftrace_entry %s" % (cur, h, ":".join(e))
    if case["complete"]:
        for k, s in sorted(st.items()):
            if s:
                return "thread %d: %d uftrace_entry callbacks never got their uftrace_exit (all calls returned): %s" % (
                    k, len(s), " ".join(":".join(e) for e in s))
    return None


def unlink_shm(res):
    """libmcount maps two buffers per thread but announces only the one in use: lib/h1.py unlinks the announced
    ones, the spare ones (`-001`) of this run's session are removed here"""
    import glob
    for typ, payload in res["msgs"]:
        if typ == "REC_START":
            m = re.match(r"^/(uftrace-[0-9a-f]+)-\d+-\d+", payload.decode(errors="replace"))
            if m:
                for f in glob.glob("/dev/shm/%s-*" % m.group(1)):
                    try:
                        os.unlink(f)
                    except OSError:
                        pass
    return res


def run_h1(ctx, known):
    from lib import h1, mcgen, mcheck
    exe, log = h1.build(ctx, "normal", driver="h1_c18_driver.c", out="h1c18")
    if exe is None:
        C.violation(ctx, "h1-build", {"kind": "harness-build-failed", "log": log[-3000:]}, True)
        return None
    sizes = mcheck.sym_sizes(exe)
    spath = os.path.join(ctx.scratch, "c18hook.testing")
    with open(spath, "w") as f:
        f.write("# uftrace script testing\n")
    n = 160 if ctx.tier == "quick" else 12000
    cases = [gen_h1_case(ctx.rng, i, ctx.tier) for i in range(n)]

    def one(c):
        env = dict(mcgen.to_env(c["opts"]), UFTRACE_BUFFER="1048576", UFTRACE_SCRIPT=spath)
        if "UFTRACE_LOCATION" in env:       # f0..f3, g_big live in this check's own driver file
            env["UFTRACE_LOCATION"] = env["UFTRACE_LOCATION"].replace("h1_driver.c", "h1_c18_driver.c")
        if c["funcs"]:
            env["UFTRACE_ARGS"] = "\n".join(mcgen.patt(c["opts"], f) for f in c["funcs"])
        return unlink_shm(h1.run(ctx, exe, env, c["ops"], c["idx"]))

    with ThreadPoolExecutor(16) as ex:
        rs = list(ex.map(one, cases))

    mlines, spans = [], []
    for c in cases:
        for fixed in (1, 0):
            pre = ["HRESET"]
            for l in mcgen.to_model(c["opts"], sizes):
                w = l.split(" ", 1)
                pre.append("H" + w[0] + ((" " + w[1]) if len(w) > 1 else ""))
            pre.append("HCFG fixed=%d funcs=%s" % (fixed, ",".join(str(f) for f in c["funcs"]) or "-"))
            spans.append((len(mlines) + len(pre), len(c["ops"])))
            mlines += pre + c["ops"]
    mout = C.run_model("C18", mlines)

    st = {"cases": n, "hooks": 0, "disagree": 0, "monitor_bad": 0, "prefix_exithook": 0, "threads>1": 0,
          "with_trace_off": 0, "with_funcs": 0, "open_at_end": 0, "distinct": 0}
    distinct = set()
    reported = 0
    samples = []
    for ci, (c, r) in enumerate(zip(cases, rs)):
        a1, n1 = spans[2 * ci]
        a0, n0 = spans[2 * ci + 1]
        m_fixed = [C.norm(x) for x in mout[a1:a1 + n1]]
        m_pre = [C.norm(x) for x in mout[a0:a0 + n0]]
        lines = r["lines"]
        problems = None
        if not lines or not lines[0].startswith("SCRIPT enabled=1 str=set") or r["rc"] != 0:
            problems = "harness failed: rc=%s first=%r stderr=%s" % (r["rc"], lines[:1], r["stderr"][-300:])
        impl = []
        hooks_per_op = []
        for l in lines[1:]:
            m = re.match(r"^\d+ (.*)$", l)
            body = m.group(1) if m else l
            hm = re.search(r"hooks=(.*)$", body)
            if hm:
                toks = hm.group(1).split()
                toks = [] if toks == ["-"] else toks
                hooks_per_op.append(toks)
                impl.append(" ".join(":".join(t.split(":")[:-1]) for t in toks) or "-")
                if "ret=BAD" in body:
                    problems = "mcount_exit returned a wrong address"
            else:
                hooks_per_op.append([])
                impl.append(body.strip())
        st["hooks"] += sum(len(h) for h in hooks_per_op)
        st["threads>1"] += c["nthr"] > 1
        st["with_trace_off"] += bool(c["opts"].trace_off or any(a == "trace_off" for _, acts in c["opts"].T for a, _ in acts))
        st["with_funcs"] += bool(c["funcs"])
        st["open_at_end"] += sum(c["open"])
        if any(h for h in hooks_per_op):
            distinct.add((json.dumps(c["opts"].describe(), sort_keys=True, default=str), tuple(c["ops"]), tuple(c["funcs"])))
        if len(samples) < 2 and ci % 61 == 9:
            samples.append({"env": mcgen.to_env(c["opts"]), "funcs": c["funcs"], "ops": c["ops"][:40], "impl": impl[:40]})
        mon = h1_monitor(c, hooks_per_op) if problems is None else None
        agree = impl == m_fixed
        if not agree:
            st["disagree"] += 1
        if mon:
            st["monitor_bad"] += 1
        is_prefix = (not agree) and impl == m_pre
        if is_prefix:
            st["prefix_exithook"] += 1
            f = next((k for k in known if k.get("id") == F_EXITHOOK), None)
            if f is not None:
                C.known(ctx, f, "finding=%s script_hook_exit is skipped while mcount_enabled is false although "
                        "script_hook_entry ran (implementation matches the pre-fix model)" % F_EXITHOOK)
                continue
        if (problems or mon or not agree) and reported < 3:
            reported += 1
            first = next((i for i, (a, b) in enumerate(zip(impl, m_fixed)) if a != b), None)
            C.violation(ctx, "h1-case%d" % c["idx"], {
                "kind": "property-violated-on-implementation" if mon else
                        ("harness-failed" if problems else "model-code-disagreement"),
                "what": mon or problems or "hook log differs from the model at op %s" % first,
                "finding": F_EXITHOOK if is_prefix else None,
                "matches_prefix_model_%s" % F_EXITHOOK: is_prefix,
                "theorem": "c18_record_time_paired" if mon else None,
                "env": mcgen.to_env(c["opts"]), "UFTRACE_ARGS (script function list)": c["funcs"],
                "model_setup": [l for l in mlines[a1 - 12:a1] if l.startswith("H")][-8:],
                "ops": c["ops"], "impl": impl, "model_fixed": m_fixed, "model_prefix": m_pre,
                "stderr": r["stderr"][-500:],
            }, no_failing_input=not mon)
    st["distinct"] = len(distinct)
    st["samples"] = samples
    return st


# ------------------------------------------------------------------ end-to-end: uftrace record -S
E2E_C = r"""
#include <pthread.h>
__attribute__((noinline)) int c(int x) { asm volatile(""); return x + 1; }
__attribute__((noinline)) int b(int x) { return c(x) + 1; }
__attribute__((noinline)) int a(int x) { return b(x) + c(x); }
__attribute__((noinline)) int d(int x) { return c(x) + 2; }
void *thr(void *p) { long n = (long)p; for (int i = 0; i < 2; i++) a(n); d(n); return 0; }
int main(void) {
	pthread_t t[2];
	for (long i = 0; i < 2; i++) pthread_create(&t[i], 0, thr, (void *)i);
	for (int i = 0; i < 2; i++) pthread_join(t[i], 0);
	a(1); d(2);
	return 0;
}
"""

E2E_PY = """import sys
def uftrace_begin(ctx):
    print("B %d" % (1 if ctx["record"] else 0)); sys.stdout.flush()
def uftrace_entry(ctx):
    print("E %d %d %d %d %s" % (ctx["tid"], ctx["depth"], ctx["timestamp"], ctx["address"], ctx["name"])); sys.stdout.flush()
def uftrace_exit(ctx):
    print("X %d %d %d %d %d %s" % (ctx["tid"], ctx["depth"], ctx["timestamp"], ctx["duration"], ctx["address"], ctx["name"])); sys.stdout.flush()
def uftrace_end():
    print("END"); sys.stdout.flush()
"""


def run_e2e(ctx, uftrace, known):
    """`uftrace record -S` on a multi-threaded program: per-thread pairing of what the script prints"""
    d = os.path.join(ctx.scratch, "e2e")
    os.makedirs(d, exist_ok=True)
    with open(os.path.join(d, "t.c"), "w") as f:
        f.write(E2E_C)
    with open(os.path.join(d, "c18rec.py"), "w") as f:
        f.write(E2E_PY)
    r = C.sh(["gcc", "-pg", "-O0", "-o", os.path.join(d, "t"), os.path.join(d, "t.c"), "-lpthread"], cwd=d)
    if r.returncode != 0:
        C.violation(ctx, "e2e-build", {"kind": "harness-build-failed", "log": r.stdout[-2000:]}, True)
        return None
    st = {"runs": 0, "callbacks": 0, "unpaired_runs": 0}
    runs = [("plain", []), ("funcs-filter", ["-F", "a"]), ("trace-off", ["-T", "b@trace_off", "-T", "d@trace_on"])]
    for name, extra in runs:
        cmd = ["timeout", "-s", "KILL", "30", uftrace, "record", "--libmcount-path=" + os.path.join(ctx.src, "libmcount"),
               "--no-pager", "--no-event", "-S", os.path.join(d, "c18rec.py"), "-d", os.path.join(d, "data-" + name)] + extra + \
              [os.path.join(d, "t")]
        p = subprocess.run(cmd, cwd=d, stdout=subprocess.PIPE, stderr=subprocess.PIPE, text=True)
        st["runs"] += 1
        stacks, bad, nend = {}, None, 0
        for line in p.stdout.split("\n"):
            w = line.split()
            if not w:
                continue
            if w[0] == "END":
                nend += 1
            if w[0] == "E" and len(w) == 6:
                st["callbacks"] += 1
                stacks.setdefault(w[1], []).append((w[2], w[3], w[4], w[5]))
            elif w[0] == "X" and len(w) == 7:
                st["callbacks"] += 1
                s = stacks.setdefault(w[1], [])
                if not s:
                    bad = bad or "uftrace_exit of %s (tid %s) without an open uftrace_entry" % (w[6], w[1])
                    continue
                e = s.pop()
                if e != (w[2], w[3], w[5], w[6]):
                    bad = bad or "uftrace_exit %s does not close the innermost uftrace_entry %s" % (" ".join(w), " ".join(e))
        left = {t: s for t, s in stacks.items() if s}
        if bad is None and left:
            bad = "entries without exit although every function returned: " + "; ".join(
                "tid %s: %s" % (t, ",".join(x[3] for x in s)) for t, s in sorted(left.items()))
        if bad is None and (p.returncode != 0 or nend != 1 or not p.stdout.startswith("B 1")):
            C.violation(ctx, "e2e-" + name, {"kind": "harness-failed", "rc": p.returncode, "stdout": p.stdout[-1500:],
                                             "stderr": p.stderr[-1500:]}, True)
            continue
        if bad:
            st["unpaired_runs"] += 1
            f = next((k for k in known if k.get("id") == F_EXITHOOK), None)
            if name == "trace-off" and f is not None:
                C.known(ctx, f, "finding=%s script_hook_exit is skipped while mcount_enabled is false although "
                        "script_hook_entry ran (implementation matches the pre-fix model)" % F_EXITHOOK)
                continue
            C.violation(ctx, "e2e-" + name, {
                "kind": "property-violated-on-implementation", "what": bad, "theorem": "c18_record_time_paired",
                "finding": F_EXITHOOK if name == "trace-off" else None,
                "command": " ".join(cmd), "program": E2E_C, "script": E2E_PY, "stdout": p.stdout[-3000:]})
    return st



def load_mt():
    import importlib.util
    sp = importlib.util.spec_from_file_location("c18_mt", os.path.join(C.VERIF, "harness", "c18_mt.py"))
    m = importlib.util.module_from_spec(sp)
    sp.loader.exec_module(m)
    return m


def run_e2e_mt(ctx, uftrace, known):
    """`uftrace record -S` with a Python and a Lua script on generated multi-threaded programs whose hooks
    overlap (a slow callback in one thread while the others make calls): per tid, callbacks = recorded calls,
    properly paired (harness/c18_mt.py)"""
    MT = load_mt()
    rng = ctx.rng
    nprog = 5 if ctx.tier == "quick" else 40
    progs = [MT.gen_program(rng, i) for i in range(nprog)]
    langs = ["py"] + (["lua"] if HAVE_LUA else [])
    try:
        lua_locked = "pthread_mutex_lock" in open(os.path.join(ctx.src, "utils", "script-luajit.c")).read()
    except OSError:
        lua_locked = True
    work = os.path.join(ctx.scratch, "mt")
    os.makedirs(work, exist_ok=True)
    jobs = [(p, l) for p in progs for l in langs]
    libm = os.path.join(ctx.src, "libmcount")
    with ThreadPoolExecutor(8) as ex:
        res = list(ex.map(lambda j: MT.run_case(uftrace, libm, work, j[0], j[1]), jobs))
    st = {"runs": len(jobs), "programs": nprog, "threads": sorted(p["nthr"] for p in progs), "callbacks": 0, "bad_py": 0,
          "bad_lua": 0, "lua_binding_has_lock": lua_locked, "slow_callback_s": MT.SLOW_S,
          "kinds": sorted(p["kind"] for p in progs), "with_libcalls": sum(p["libcall"] for p in progs)}
    reported = set()
    for (p, lang), r in zip(jobs, res):
        st["callbacks"] += sum(1 for l in r["log"].split("\n") if l[:2] in ("E ", "X "))
        if not r["what"]:
            continue
        st["bad_" + lang] += 1
        obj = {"kind": "property-violated-on-implementation", "what": r["what"], "theorem": "c18_record_time_every_thread",
               "language": lang, "command": r["cmd"], "threads": p["nthr"], "slow_callback": "%s of %s sleeps %.2f s" % (
                   {"E": "uftrace_entry", "X": "uftrace_exit"}[p["slow_at"]], p["slow"], MT.SLOW_S),
               "cc": "gcc -O0 %s -pthread" % ("-pg" if p["kind"] == "pg" else "-finstrument-functions"),
               "program": p["src"], "script": MT.script_text(lang, "<log>", "<marker>", p["slow"], p["slow_at"]),
               "mt": {k: p[k] for k in ("idx", "nthr", "slow", "slow_at", "slow_calls", "libcall", "kind")},
               "callback_log": r["log"][-3000:], "replay": r["replay"][-3000:], "stderr": r["stderr"][-800:]}
        if lang == "lua" and not lua_locked:
            what = ("finding=%s utils/script-luajit.c calls into its single lua_State from every thread of the traced "
                    "program without a lock (the python binding has python_interpreter_lock): with -S x.lua on a "
                    "multi-threaded program overlapping hooks corrupt the Lua state - callbacks are lost or the traced "
                    "program dies (PANIC: unprotected error in call to Lua API / SIGSEGV)" % F_LUALOCK)
            f = next((k for k in known if k.get("id") == F_LUALOCK), None)
            if f is not None:
                C.known(ctx, f, what)
                continue
            if F_LUALOCK in reported:
                continue
            reported.add(F_LUALOCK)
            obj.update({"finding": F_LUALOCK, "defect": what, "proposed_fix": "proposed_fixes/C18-LUA-NOLOCK.diff",
                        "theorem": "c18_record_time_every_thread / c18_prefix_nolock_witness"})
            C.violation(ctx, "e2e-mt%d-lua" % p["idx"], obj)
            continue
        if len(reported) < 4:
            reported.add((p["idx"], lang))
            C.violation(ctx, "e2e-mt%d-%s" % (p["idx"], lang), obj)
    return st


def run(ctx):
    ctx.snapshot()
    lim = read_time_limits(ctx.src)
    if lim:
        TIME_LIMITS[:] = lim
    ctx.notes.append("__print_time_unit limit[] of the snapshot: %s" % (lim or "not found (default used)"))
    try:
        from translators import scriptargs2lean
        changed, info = scriptargs2lean.main(ctx.src, ctx.scratch)
        OCT_CASE.update(info["oct_case"])
        ctx.notes.append("Gen/ScriptArgs.lean regenerated from the snapshot (changed=%s); case ARG_FMT_OCT: %s" % (
            changed, info["oct_case"]))
    except Exception as e:       # the translator cannot read the sources any more
        C.violation(ctx, "translator", {"kind": "translator-failed", "error": str(e),
                                        "theorem": "c18_args_decode_roundtrip_*"}, True)
        return C.finish(ctx)
    ok, problems = C.prove(ctx, "C18")
    if not ok:
        C.violation(ctx, "proof", {"kind": "proof-obligation-broken", "problems": problems}, True)
        # the model itself (uvmodel) does not depend on the proofs: go on and look for a concrete failing input
        okb, _ = C.lake_build(["uvmodel"])
        if not okb:
            return C.finish(ctx)
    okm, log = ctx.make()
    uftrace = os.path.join(ctx.src, "uftrace")
    if not okm or not os.path.exists(uftrace):
        C.violation(ctx, "build", {"kind": "snapshot-build-failed", "log": log[-3000:]}, True)
        return C.finish(ctx)
    known = C.known_findings("C18")
    ver = subprocess.run(["timeout", "-s", "KILL", "20", uftrace, "--version"], stdout=subprocess.PIPE,
                         stderr=subprocess.STDOUT, text=True).stdout
    if "python" not in ver:
        C.violation(ctx, "build", {"kind": "harness-failed", "what": "the snapshot build has no python scripting: " + ver}, True)
        return C.finish(ctx)
    global HAVE_LUA
    HAVE_LUA = "luajit" in ver
    if not HAVE_LUA:
        ctx.notes.append("no luajit support in the snapshot build: Lua cases run as Python cases")
    h3 = run_h3(ctx, uftrace, known)
    hk = run_h1(ctx, known) or {"cases": 0, "distinct": 0, "samples": []}
    e2e = run_e2e(ctx, uftrace, known)
    mt = run_e2e_mt(ctx, uftrace, known)
    ctx.coverage.update({
        "evaluations": h3["cases"] + hk["cases"] + (e2e or {}).get("runs", 0) + mt["runs"],
        "distinct_nontrivial": h3["distinct"] + hk["distinct"],
        "rule": "H3: random properly nested per-task walks (1-4 tasks, depth <= 7 (30 thorough), recursion 0.2, open calls "
                "at the end 0.3, timestamp ties 0.35) x random -F/-N/-D/-t/--tid/--no-args x UFTRACE_FUNCS (names, a regex, "
                "a non-existent name) x {python, lua 0.2-0.35} x replay {default, --no-merge}; argument / return value "
                "payloads (0.6; always in the groups args/argless/oct): per case 2-5 functions get 0-6 argument specs and "
                "an optional retval spec drawn from /d /i /u /x (/o: group oct) x 8|16|32|64 bits, /c, /s (lengths 0-14 and "
                "33, NULL), /S, /f32 /f64 /f80 and fpargN, /p (0, symbol addresses, others), /e:<type>, /t<size>[:<type>] in "
                "any order; every decoded ctx['args'] / ctx['retval'] element is compared with the text replay prints for "
                "the same record (canonical value per format) and with the value written; distinct = distinct (model "
                "input, spec table, language) with at least one entry/exit callback",
        "rule_h1": "H1: random option sets of lib/mcgen.rand_opts (filters, depth, time, size, location, caller, triggers) "
                   "plus trace_off / trace_on triggers (0.55), 1-3 threads, random interleaved entry/exit walks (pg, cyg or "
                   "mixed hooks, depth <= 6, 80% complete), script function list via UFTRACE_ARGS (0.3); "
                   "distinct = distinct (options, ops, list) with at least one hook",
        "h3": {k: v for k, v in h3.items() if k != "samples"},
        "h1": {k: v for k, v in hk.items() if k != "samples"},
        "e2e": e2e,
        "e2e_multithreaded_record_time": mt,
        "rule_e2e_mt": "generated pthread programs (2-4 worker threads + main, 6 functions on a random acyclic call graph, "
                       "-pg or -finstrument-functions, with or without library calls) recorded with -S <logging script> in "
                       "Python and in Lua; the callback of one chosen function (entry or exit) sleeps and keeps a marker file "
                       "in place, the other threads wait for the marker (raw system calls) and then make their calls, so "
                       "hooks of different threads overlap in the binding; monitor: begin first / end last once, per tid the "
                       "callback log is properly nested and equals the entry/exit lines of `replay --no-merge` of the data "
                       "recorded by the same run",
        "samples": h3["samples"] + hk["samples"],
        "exhaustive": False,
    })
    ctx.assumptions += [
        "analysis time: user ENTRY/EXIT records of properly nested per-task streams starting at depth 0 (no LOST / EVENT / "
        "kernel / perf records, no fork/exec/longjmp fixups, depth < max_stack); options -F -N -D -t --tid --no-args; "
        "function names are unique per address; UFTRACE_FUNCS patterns are evaluated by Python's re / == on the check side",
        "argument and return value payloads are opaque tokens in the run model (Script.scriptRun); the layout of the "
        "buffer (sizes and advances of the writer and of the replay / python / lua readers) is translated from the C "
        "sources into Gen/ScriptArgs.lean on every run and the decode-of-encode theorems are re-checked against it; "
        "how a value is presented (sign of /u8../u32 and of 8-byte values in the bindings, hex/octal/&symbol notation, "
        "6-decimal floats, 'struct: T{}' vs T{...}) is normalised per format before script and replay are compared; "
        "8-byte integers in Lua cases stay below 2^50 (Lua numbers are doubles); strings are ASCII without quotes",
        "record time: the script language binding is replaced by logging C functions (the `.testing` script type); "
        "the Python binding at record time is exercised by three end-to-end runs only; `finish` triggers are excluded",
        "timestamps are ordered per task, so that 64-bit differences do not wrap (the model uses truncated subtraction)",
    ]
    return C.finish(ctx)


def replay(ctx, path):
    """re-run the recorded case on the current tree and print both sides"""
    r = json.load(open(path))
    print(json.dumps({k: r.get(k) for k in ("kind", "what", "finding", "theorem", "options", "UFTRACE_FUNCS", "lang", "env")}, indent=1))
    if "case" in r:                      # analysis-time case
        ctx.snapshot()
        lim = read_time_limits(ctx.src)
        if lim:
            TIME_LIMITS[:] = lim
        okm, log = ctx.make()
        uftrace = os.path.join(ctx.src, "uftrace")
        if not okm:
            print("snapshot build failed:", log[-1000:])
            return 2
        case = r["case"]
        case["specs"] = {int(k): v for k, v in case["specs"].items()}
        case["tasks"] = [dict(t, recs=[tuple(x) for x in t["recs"]]) for t in case["tasks"]]
        d = os.path.join(ctx.scratch, "replay-dir")
        sp = write_case(case, d)
        opts = cmd_opts(case)
        _, out1, err1 = D.run_uftrace(uftrace, "script", d, ["-S", sp] + opts)
        _, out2, err2 = D.run_uftrace(uftrace, "replay", d, ["-f", "duration,tid,addr,time"] + ([] if case["merge"] else ["--no-merge"]) + opts)
        m = C.run_model("C18", [model_line(case, "RUN", 1), model_line(case, "RUN", 0), model_line(case, "SHOW", 1)])
        print("---- uftrace script", " ".join(opts)); print(out1 + err1)
        print("---- uftrace replay", " ".join(opts)); print(out2 + err2)
        print("---- model (repaired)   :", m[0]); print("---- model (pre-fix args):", m[1]); print("---- model shown lines   :", m[2])
        cbs, _ = ev_script(case, out1)
        same = cbs == ev_model(case, m[0])
        print("script output %s the model" % ("matches" if same else "DIFFERS from"))
        # replay against the model's shown lines: repaired cmds/replay.c and the one before F-C18-EXIT-ADDR
        mp = C.run_model("C18", [model_line(case, "SHOW", 1, exitaddr=0)])
        rep, _ = ev_replay(case, out2)
        shown = ev_model(case, m[2])
        shown_pre = [(a[:5] + (b[5],) + a[6:]) if a[0] == "X" else a for a, b in zip(shown, ev_model(case, mp[0]))]

        def agrees(ms):
            ms = as_replay(ms)
            return len(ms) == len(rep) and all(same_as_replay(a, b) is None for a, b in zip(ms, rep))
        rsame = agrees(shown)
        print("replay output %s the model%s" % ("matches" if rsame else "DIFFERS from", "" if rsame else (
            "; it matches the model of cmds/replay.c before the repair of %s (address of an EXIT line = what the frame's "
            "slot holds)" % F_EXITADDR if agrees(shown_pre) else "")))
        if not rsame:
            for a, b in zip(as_replay(shown), rep):
                if same_as_replay(a, b):
                    print("  first difference (%s): model / script %r, replay %r" % (same_as_replay(a, b), a, b))
                    break
        return 0 if (same and rsame) else 1
    if "mt" in r and "program" in r:     # record-time, multi-threaded end-to-end case
        okm, log = ctx.make()
        uftrace = os.path.join(ctx.src, "uftrace")
        if not okm:
            print("snapshot build failed:", log[-1000:])
            return 2
        MT = load_mt()
        prog = dict(r["mt"], src=r["program"])
        bad = 0
        for k in range(3):              # the overlap is forced, what a lock-less binding does with it is not
            res = MT.run_case(uftrace, os.path.join(ctx.src, "libmcount"), os.path.join(ctx.scratch, "mt-replay"), prog,
                              r["language"])
            print("run %d: rc=%s %s" % (k, res["rc"], res["what"] or "callbacks of every thread = its recorded calls, paired"))
            bad += bool(res["what"])
        return 1 if bad else 0
    if "ops" in r and "env" in r:        # record-time case
        from lib import h1
        exe, log = h1.build(ctx, "normal", driver="h1_c18_driver.c", out="h1c18")
        if exe is None:
            print("harness build failed:", log[-1000:])
            return 2
        spath = os.path.join(ctx.scratch, "c18hook.testing")
        open(spath, "w").write("# uftrace script testing\n")
        env = dict(r["env"], UFTRACE_BUFFER="1048576", UFTRACE_SCRIPT=spath)
        if "UFTRACE_LOCATION" in env:
            env["UFTRACE_LOCATION"] = env["UFTRACE_LOCATION"].replace("h1_driver.c", "h1_c18_driver.c")
        fl = r.get("UFTRACE_ARGS (script function list)") or []
        if fl:
            patt = env.get("UFTRACE_PATTERN", "regex")
            env["UFTRACE_ARGS"] = "\n".join(("^%s$" if patt == "regex" else "%s") % ("g_big" if f == 8 else "f%d" % f) for f in fl)
        res = unlink_shm(h1.run(ctx, exe, env, r["ops"], 0))
        for op, l, a, b in zip(r["ops"], res["lines"][1:], r.get("model_fixed", []), r.get("model_prefix", [])):
            print("%-12s | %-40s | model %-28s | pre-fix model %s" % (op, l, a, b))
        return 0
    print(json.dumps(r, indent=1)[:4000])
    return 0
