"""C13 — Symbol demangling is total, safe and correct for compiler-produced names.

Lean: Uft/Model/Demangle.lean (port of utils/demangle.c's simple demangler),
Uft/Gen/DemangleTables.lean (generated from the C tables on every run),
Uft/Props/C13.lean.  Tie: correspondence (H4) — the real demangle() of the
scratch snapshot, built with ASan+UBSan, and the model run on the same names
(compiled C++/Rust declaration corpus, the repo's own test vectors, mutations,
random bytes); a crash / hang / NULL of the code is a *result*.  Monitor: the
property statement evaluated on the implementation's outputs."""
import collections
import importlib.util
import json
import os
import random
import re
import subprocess
import sys

from lib import common as C

FINDINGS = ["F10", "F10b", "F10c", "F10d", "F10e", "F10g", "F10i", "F10k", "F10j"]   # order = bits of the `dmx` mask
FINDING_TEXT = {
    "F10": "dd_ctor_dtor_name: strrchr(dd->new, ':') with dd->new == NULL (C1/D0 code before any name)",
    "F10b": "dd_special_name: strchr(T_type, '\\0') succeeds -> T_type_name[6] out of bounds",
    "F10c": "dd_type: strchr(D_types, '\\0') succeeds -> returns 0 without consuming -> endless loop",
    "F10d": "signed overflow of dd->pos + num in dd_source_name (-> huge realloc, exit) / n + 1 in the lambda name",
    "F10e": "dd_source_name: a rust `$..$` mapping may extend past the name's end (negative size / over-read / dropped char)",
    "F10g": "demangle_simple returns NULL when the parse succeeds without output",
    "F10i": "dd_discriminator: `_<digit>` read with dd_number swallows the digits of the following <source-name> "
            "(local class as parameter: name returned unchanged)",
    "F10j": "dd_expression: the binary-operator loop skips every code with c0 == 'c' or c1 == 'v' (`dv`, `cm`, `co` "
            "rejected) and takes `nw`/`na` for binary operators (function template with such an expression in its "
            "signature: name returned unchanged)",
    "F10k": "dd_expr_primary: the hex digits of a floating-point literal (C++20 template argument) are not skipped "
            "(name returned unchanged)",
}
GLOBAL_PREFIX = b"_GLOBAL__sub_I_"


def load_gen():
    spec = importlib.util.spec_from_file_location("c13_corpusgen", os.path.join(C.VERIF, "harness/c13_corpusgen.py"))
    m = importlib.util.module_from_spec(spec)
    spec.loader.exec_module(m)
    return m


def load_translator():
    spec = importlib.util.spec_from_file_location("c13_tables", os.path.join(C.VERIF, "translators/c13_tables.py"))
    m = importlib.util.module_from_spec(spec)
    spec.loader.exec_module(m)
    return m


def regen_tables(ctx):
    """T tie: Gen/DemangleTables.lean is regenerated from the tree under test."""
    tr = load_translator()
    t = tr.parse(ctx.src)
    with C.LeanLock():
        C.write_if_changed(os.path.join(C.LEAN, "Uft/Gen/DemangleTables.lean"), tr.emit(t))
    return t


def finding_listed(fid):
    """is a finding with this id recorded for C13 (any status)?  Corpus classes that exercise a reported but
    not yet recorded observation are generated only once the coordinator has recorded it."""
    try:
        kf = json.load(open(os.path.join(C.VERIF, "known_findings.json")))
    except (OSError, ValueError):
        return False
    return any(f.get("id") == fid and f.get("property") == "C13" for f in kf.get("findings", []))


def nm_lines(obj):
    r = C.sh(["nm", "-l", obj])
    out = []
    for l in r.stdout.split("\n"):
        m = re.match(r"^[0-9a-f]+ ([TtWw]) (\S+)\t(.*):(\d+)$", l)
        if m:
            out.append((m.group(2), int(m.group(4))))
    return out


def compiled_corpus(ctx, gen, nfiles, nfun, nrust):
    """[(mangled bytes, expected qualified name, origin)] from the installed compilers."""
    out = []
    info = collections.Counter()
    d = os.path.join(ctx.scratch, "corpus")
    os.makedirs(d, exist_ok=True)
    compilers = [c for c in ("g++", "clang++-14") if C.sh(["which", c]).returncode == 0]
    for i in range(nfiles):
        if not compilers:
            break
        cxx = compilers[i % len(compilers)]
        src, linemap = gen.cpp_source(ctx.rng, nfun)
        path = os.path.join(d, "c%d.cpp" % i)
        open(path, "w").write(src)
        obj = path[:-4] + ".o"
        r = C.sh([cxx, "-std=gnu++17", "-g", "-O0", "-w", "-c", path, "-o", obj])
        if r.returncode != 0:
            ctx.notes.append("corpus: %s failed on generated file %d: %s" % (cxx, i, r.stdout[-300:]))
            info["compile_failed"] += 1
            continue
        for sym, line in nm_lines(obj):
            if line in linemap and sym.startswith("_Z"):
                exp, kind = linemap[line]
                out.append((sym.encode(), exp, "%s:%s" % (cxx, kind)))
                info["%s:%s" % (cxx, kind)] += 1
    # class templates with non-type template arguments (address of function / global / member, references,
    # literals of every builtin type, nullptr, enums, packs, class-type values) at outer and nested
    # positions, followed by methods, ctors, dtors, operators, nested classes and nested templates; function
    # templates whose signature keeps dependent expressions (X…E / DT…E)
    jobs = [(c, "gnu++17") for c in compilers] + ([("g++", "gnu++20")] if "g++" in compilers else [])
    for cxx, std in jobs:
        src, linemap = gen.nttp_source(ctx.rng, cxx20=(std == "gnu++20"), with_float=finding_listed("F10k"), with_exprops=finding_listed("F10j"))
        path = os.path.join(d, "nttp-%s-%s.cpp" % (cxx, std))
        open(path, "w").write(src)
        obj = path[:-4] + ".o"
        r = C.sh([cxx, "-std=" + std, "-g", "-O0", "-w", "-c", path, "-o", obj])
        if r.returncode != 0:
            ctx.notes.append("corpus: %s -std=%s failed on the non-type-argument file: %s" % (cxx, std, r.stdout[-300:]))
            info["compile_failed"] += 1
            continue
        for sym, line in nm_lines(obj):
            if line in linemap and sym.startswith("_Z"):
                exp, kind = linemap[line]
                out.append((sym.encode(), exp, "%s:%s" % (cxx, kind)))
                info["%s:%s" % (cxx, kind)] += 1
    # thunks of hierarchies with virtual bases / covariant return types (`_ZTv0_n24_…`, `_ZTch0_v0_n24_…`: the name of
    # the function the thunk adjusts to is the expected result) and identifiers that look like hexadecimal words
    for cxx in compilers:
        src, linemap = gen.thunk_source(ctx.rng)
        path = os.path.join(d, "thunk-%s.cpp" % cxx)
        open(path, "w").write(src)
        obj = path[:-4] + ".o"
        r = C.sh([cxx, "-std=gnu++17", "-g", "-O0", "-w", "-c", path, "-o", obj])
        if r.returncode != 0:
            ctx.notes.append("corpus: %s failed on the thunk file: %s" % (cxx, r.stdout[-300:]))
            info["compile_failed"] += 1
            continue
        for sym, line in nm_lines(obj):
            if line in linemap and sym.startswith("_Z"):
                exp, kind = linemap[line]
                m = re.match(r"_ZT(h|v|ch|cv)", sym)
                if m:
                    kind = "thunk:T" + m.group(1)
                out.append((sym.encode(), exp, "%s:%s" % (cxx, kind)))
                info["%s:%s" % (cxx, kind)] += 1
    # static initialisers: `_GLOBAL__sub_I_` + the mangled name of the first global definition of the unit (g++);
    # expected = the prefix + the qualified name of that definition
    if "g++" in compilers:
        for k, (src, linemap, first, shape) in enumerate(gen.static_init_sources(ctx.rng, 6 if nfiles <= 2 else 26)):
            path = os.path.join(d, "sinit%d.cpp" % k)
            open(path, "w").write(src)
            obj = path[:-4] + ".o"
            r = C.sh(["g++", "-std=gnu++17", "-g", "-O0", "-w", "-c", path, "-o", obj])
            if r.returncode != 0:
                ctx.notes.append("corpus: g++ failed on static-initialiser unit %d: %s" % (k, r.stdout[-300:]))
                info["compile_failed"] += 1
                continue
            by_sym = {}
            for sym, line in nm_lines(obj):
                if line in linemap and sym.startswith("_Z"):
                    exp, kind = linemap[line]
                    by_sym[sym] = exp
                    out.append((sym.encode(), exp, "g++:" + kind))
                    info["g++:" + kind] += 1
            for sym in C.sh(["nm", obj]).stdout.split():
                if sym.startswith("_GLOBAL__sub_I_"):
                    tail = sym[15:]
                    if not tail.startswith("_Z"):
                        exp = sym                       # plain name of a variable: unchanged
                    elif tail in by_sym:
                        exp = "_GLOBAL__sub_I_" + by_sym[tail]
                    elif first is not None and shape.endswith("variable"):
                        exp = "_GLOBAL__sub_I_" + first
                    else:
                        continue
                    out.append((sym.encode(), exp, "g++:sinit:%s" % shape))
                    info["g++:sinit-symbol"] += 1
    # local classes (members of classes defined inside functions), with discriminators
    for cxx in compilers:
        src, linemap = gen.local_source(ctx.rng, class_params=finding_listed("F10i"))
        path = os.path.join(d, "local-%s.cpp" % cxx)
        open(path, "w").write(src)
        obj = path[:-4] + ".o"
        r = C.sh([cxx, "-std=gnu++17", "-g", "-O0", "-w", "-c", path, "-o", obj])
        if r.returncode != 0:
            ctx.notes.append("corpus: %s failed on the local-class file: %s" % (cxx, r.stdout[-300:]))
            info["compile_failed"] += 1
            continue
        for sym, line in nm_lines(obj):
            if line in linemap and sym.startswith("_ZZ"):
                exp, kind = linemap[line]
                out.append((sym.encode(), exp, "%s:%s" % (cxx, kind)))
                info["%s:%s" % (cxx, kind)] += 1
    if nrust and C.sh(["which", "rustc"]).returncode == 0:
        src, linemap = gen.rust_source(ctx.rng, nrust)
        path = os.path.join(d, "r0.rs")
        open(path, "w").write(src)
        obj = path[:-3] + ".o"
        r = C.sh(["rustc", "--crate-type=lib", "--crate-name=cr", "-g", "-C", "opt-level=0", "--emit=obj", "-o", obj, path])
        if r.returncode != 0:
            ctx.notes.append("corpus: rustc failed: " + r.stdout[-300:])
            info["compile_failed"] += 1
        else:
            for sym, line in nm_lines(obj):
                # legacy scheme only (the demangler has no v0 support by design)
                if line in linemap and sym.startswith("_ZN"):
                    exp, kind = linemap[line]
                    out.append((sym.encode(), exp, "rustc:" + kind))
                    info["rustc:" + kind] += 1
    # dedupe (C1/C2 share a line but are distinct names; identical names only once)
    seen = set()
    res = []
    for s, e, o in out:
        if s not in seen:
            seen.add(s)
            res.append((s, e, o))
    return res, info


def repo_names(ctx, tables):
    """names in the repo's own tests (+ expected for the unit-test vectors)"""
    vec = [(a.encode(), d) for a, d in tables["tests"]]
    names = set()
    tdir = os.path.join(ctx.src, "tests")
    for root, _, files in os.walk(tdir):
        for f in files:
            if f.endswith((".py", ".c", ".cpp", ".cc", ".h", ".txt")):
                try:
                    txt = open(os.path.join(root, f), errors="replace").read()
                except OSError:
                    continue
                for m in re.finditer(r"_Z[A-Za-z0-9_$.@]{2,}", txt):
                    names.add(m.group(0).encode())
    return vec, sorted(names)


def system_names(limit, rng):
    lib = "/usr/lib/x86_64-linux-gnu/libstdc++.so.6"
    if not os.path.exists(lib):
        return []
    r = C.sh(["nm", "-D", lib])
    names = sorted({l.split()[-1].encode() for l in r.stdout.split("\n") if l.split() and l.split()[-1].startswith("_Z")})
    rng.shuffle(names)
    return names[:limit]


ALPHABET = b"0123456789_ABCDEFGHIJKLMNOPQRSTUVWXYZabcdefghijklmnopqrstuvwxyz$.@"
TOKENS = [b"C1", b"D0", b"C2", b"CI1", b"CI2", b"D1", b"Dv", b"Dp", b"DT", b"Dt", b"sr", b"gs", b"nw", b"na", b"cv", b"li",
          b"Ul", b"Ut", b"St", b"Sa", b"Ss", b"S_", b"S0_", b"SA_", b"T_", b"T0_", b"fp", b"fL", b"fp_", b"L_Z", b"I", b"E", b"N",
          b"Z", b"X", b"J", b"L", b"F", b"A", b"M", b"U", b"B", b"17h0123456789abcdef", b"$LT$", b"$GT$", b"$u20$as$u20$",
          b"$C$", b"$u7e$", b"..", b"$", b"99999999999", b"0x1f", b"017", b"08", b"n", b"_", b"TV", b"TT", b"TI", b"TS", b"TC",
          b"TH", b"TW", b"Th", b"Tv", b"Tc", b"GV", b"GR", b"GA", b"GTt", b"GTn", b"pi", b"sZ", b"sP", b"tr", b"tl", b"il", b"cl",
          b"dt", b"pt", b"ds", b"qu", b"sc", b"dc", b"ti", b"st", b"at", b"on", b"dn", b"1a", b"3foo", b"2", b"u", b"v", b"i",
          b"Dn", b"Da", b"Di", b"Y", b"R", b"O", b"K", b"P", b"G", b"C", b"D", b"T", b"S", b"v0", b"v1x", b".", b"@", b"pp_",
          b"mm_", b"sz", b"az", b"nx", b"sp", b"tw", b"te", b"Li1E", b"Lb0E", b"LDnE", b"pl", b"ix", b"aS", b"cm"]
BIGNUMS = [0, 1, 17, 100, 2 ** 31 - 1, 2 ** 31, 2 ** 32 + 1, 2 ** 63, 2 ** 64, 10 ** 25]


def mutate(rng, s, seeds):
    s = bytearray(s)
    for _ in range(rng.choice([1, 1, 1, 2, 3])):
        k = rng.randrange(10)
        if k == 0 and len(s) > 2:
            s = s[:rng.randrange(2, len(s) + 1)]
        elif k == 1 and s:
            s[rng.randrange(len(s))] = rng.choice(ALPHABET)
        elif k == 2 and s:
            s[rng.randrange(len(s))] = rng.randrange(1, 256)
        elif k == 3:
            p = rng.randrange(len(s) + 1)
            s[p:p] = rng.choice(TOKENS)
        elif k == 4 and len(s) > 3:
            p = rng.randrange(2, len(s))
            del s[p:min(len(s), p + rng.randrange(1, 5))]
        elif k == 5 and len(s) > 4:
            p = rng.randrange(2, len(s) - 1)
            s[p], s[p + 1] = s[p + 1], s[p]
        elif k == 6 and len(s) > 3:
            p = rng.randrange(2, len(s))
            q = min(len(s), p + rng.randrange(1, 6))
            s[p:p] = s[p:q]
        elif k == 7:
            p = rng.randrange(len(s) + 1)
            s[p:p] = str(rng.choice(BIGNUMS)).encode()
        elif k == 8:
            t = rng.choice(seeds)
            if len(t) > 3:
                p = rng.randrange(len(s) + 1)
                s[p:] = t[rng.randrange(2, len(t)):]
        elif k == 9 and len(s) > 2:
            # a C/D code with (possibly) nothing before it
            p = rng.choice([2, rng.randrange(2, len(s) + 1), rng.randrange(2, len(s) + 1), rng.randrange(2, len(s) + 1)])
            s[p:p] = rng.choice([b"C1", b"D0", b"C2", b"D1", b"CI1", b"D2"])
    return bytes(b for b in s if b != 0)[:600]


BUILTIN_CPP = {"v": "void", "w": "wchar_t", "b": "bool", "c": "char", "a": "signed char", "h": "unsigned char",
               "s": "short", "t": "unsigned short", "i": "int", "j": "unsigned", "l": "long", "m": "unsigned long",
               "x": "long long", "y": "unsigned long long", "n": "__int128", "o": "unsigned __int128", "f": "float",
               "d": "double", "e": "long double", "g": "__float128", "z": "..."}
# operator code -> (C++ token, number of parameters as a member or None = any)
OP_CPP = {"pl": ("+", 1), "mi": ("-", 1), "ml": ("*", 1), "dv": ("/", 1), "rm": ("%", 1), "an": ("&", 1), "or": ("|", 1),
          "eo": ("^", 1), "aS": ("=", 1), "pL": ("+=", 1), "mI": ("-=", 1), "mL": ("*=", 1), "dV": ("/=", 1),
          "rM": ("%=", 1), "aN": ("&=", 1), "oR": ("|=", 1), "eO": ("^=", 1), "ls": ("<<", 1), "rs": (">>", 1),
          "lS": ("<<=", 1), "rS": (">>=", 1), "eq": ("==", 1), "ne": ("!=", 1), "lt": ("<", 1), "gt": (">", 1),
          "le": ("<=", 1), "ge": (">=", 1), "nt": ("!", 0), "aa": ("&&", 1), "oo": ("||", 1), "pp": ("++", 0),
          "mm": ("--", 0), "cm": (",", 1), "pm": ("->*", 1), "cl": ("()", None), "ix": ("[]", 1), "co": ("~", 0),
          "ps": ("+", 0), "ng": ("-", 0), "ad": ("&", 0), "de": ("*", 0)}


def theorem_decls(ctx, n):
    """declarations of the shape covered by c13_mangle_demangle_partial"""
    rng = ctx.rng
    out = []
    uid = [0]

    def ident(p):
        uid[0] += 1
        return "%s%d_%s" % (p, uid[0], "".join(rng.choice("abcXYZ_09") for _ in range(rng.randrange(0, 12))))
    for _ in range(n):
        scope = [ident(rng.choice(["ns", "n", "outer"])) for _ in range(rng.randrange(0, 4))]
        kind = rng.choice(["fn", "fn", "ctor", "dtor", "op"])
        if kind == "fn" and not scope:
            scope = [ident("ns")]
        name = ident("f" if kind == "fn" else "K")
        if kind == "op":
            code = rng.choice(sorted(OP_CPP))
            tok, np = OP_CPP[code]
            k = np if np is not None else rng.randrange(0, 4)
            params = [rng.choice("ijlmcahstxybdfew") for _ in range(k)]
        elif kind == "dtor":
            params, code = [], None
        else:
            params, code = [rng.choice("ijlmcahstxybdfew") for _ in range(rng.randrange(0, 4))], None
        out.append({"scope": scope, "name": name, "kind": kind, "op": code, "params": params})
    return out


def theorem_corpus(ctx, n):
    """[(mangled by the Lean `mangle`, qualifiedName by Lean, found among the compiler's symbols?)]"""
    decls = theorem_decls(ctx, n)
    lines = []
    queries = []
    for d in decls:
        ps = ", ".join(BUILTIN_CPP[c] for c in d["params"])
        for s in d["scope"]:
            lines.append("namespace %s {" % s)
        if d["kind"] == "fn":
            lines.append("__attribute__((used)) void %s(%s) { }" % (d["name"], ps))
            variants = [("fn", "-")]
        else:
            lines.append("struct %s {" % d["name"])
            if d["kind"] == "ctor":
                lines.append("__attribute__((used)) %s(%s) { }" % (d["name"], ps))
                variants = [("ctor", "31"), ("ctor", "32")]
            elif d["kind"] == "dtor":
                lines.append("__attribute__((used)) ~%s() { }" % d["name"])
                variants = [("dtor", "31"), ("dtor", "32")]
            else:
                lines.append("__attribute__((used)) void operator%s(%s) { }" % (OP_CPP[d["op"]][0], ps))
                variants = [("op", d["op"].encode().hex())]
            lines.append("int fld_; };")
        for s in d["scope"]:
            lines.append("}")
        mp = "".join(d["params"]) or "v"
        for kind, arg in variants:
            queries.append("mg %s %s %s %s %s" % (kind, arg, mp.encode().hex(), d["name"].encode().hex(),
                                                  " ".join(s.encode().hex() for s in d["scope"])))
    src = os.path.join(ctx.scratch, "corpus", "thm.cpp")
    os.makedirs(os.path.dirname(src), exist_ok=True)
    open(src, "w").write("\n".join(lines) + "\n")
    syms = set()
    for cxx in ("g++", "clang++-14"):
        if C.sh(["which", cxx]).returncode != 0:
            continue
        obj = src[:-4] + "." + cxx + ".o"
        r = C.sh([cxx, "-std=gnu++17", "-O0", "-w", "-c", src, "-o", obj])
        if r.returncode != 0:
            ctx.notes.append("theorem corpus: %s failed: %s" % (cxx, r.stdout[-300:]))
            continue
        rr = C.sh(["nm", obj])
        syms |= {l.split()[-1] for l in rr.stdout.split("\n") if l.split()}
    res = C.run_model("C13", queries)
    out = []
    for q, r in zip(queries, res):
        parts = r.split()
        if len(parts) != 2:
            out.append((q, None, None, False))
            continue
        m = bytes.fromhex(parts[0])
        out.append((q, m, bytes.fromhex(parts[1]).decode(), m.decode() in syms))
    return out, bool(syms)



# ---- production coverage of the model on the generated names -------------------------------------------
SPECIAL = ["TV", "TT", "TI", "TS", "TF", "TJ", "Th", "Tv", "Tc", "TC", "TH", "TW", "GV", "GR", "GA", "GT"]
CTORS = ["C1", "C2", "C3", "CI", "D0", "D1", "D2"]
BUILTINS = "vwbcahstijlmxynofdegz"
D_TYPES = "defhisacnu"
STD_ABBR = "tabsiod"


def production_label(fn, c0, c1, ops, unary):
    """map a call of grammar function `fn` with the two current chars to the production (branch) it takes"""
    a = chr(c0) if 32 < c0 < 127 else ("$" if c0 == 0 else "?")
    b = chr(c1) if 32 < c1 < 127 else ("$" if c1 == 0 else "?")
    ab = a + b
    dig = a.isdigit()
    if fn == "encoding":
        return "encoding:special" if a in "TG" else "encoding:name"
    if fn == "specialName":
        return "specialName:" + (ab if ab in SPECIAL else "other")
    if fn == "name":
        return "name:" + (a if a in "NZS" else "unscoped")
    if fn == "nestedLoop":
        if a == "E":
            return "nestedLoop:end"
        if ab in ("DT", "Dt"):
            return "nestedLoop:decltype"
        if a in "CD":
            return "nestedLoop:" + ("ctor" if a == "C" else "dtor")
        if a == "U":
            return "nestedLoop:U"
        if a.islower():
            return "nestedLoop:operator"
        if dig:
            return "nestedLoop:source-name"
        if a in "TISML":
            return "nestedLoop:" + a
        if a in "rVKRO":
            return "nestedLoop:qualifier"
        return "nestedLoop:other"
    if fn == "unqualifiedName":
        if a in "CD":
            return "unqualifiedName:" + a
        if ab in ("Ut", "Ul"):
            return "unqualifiedName:" + ab
        if a == "U":
            return "unqualifiedName:U-other"
        if a.islower():
            return "unqualifiedName:operator"
        if a == "L":
            return "unqualifiedName:L-source-name"
        return "unqualifiedName:source-name" if dig else "unqualifiedName:other"
    if fn == "ctorDtorName":
        return "ctorDtorName:" + (ab if ab in CTORS else "other")
    if fn == "operatorName":
        if ab in ops:
            return "operatorName:" + ab
        return "operatorName:" + ("vendor" if a == "v" and b.isdigit() else "other")
    if fn == "typeLoop":
        if a in "rVK":
            return "type:cv-qualifier"
        if a in "PROCG":
            return "type:" + a
        if a == "T":
            return "type:T" + (b if b in "sue" else ("-param" if b == "_" or b.isdigit() else "-other"))
        if a == "D":
            if b in D_TYPES:
                return "type:D" + b
            return "type:D" + (b if b in "pvtT" else "-other")
        if a == "S":
            return "type:S" + (b if b in STD_ABBR else ("_" if b == "_" else "-seq"))
        if a in "FAMuUINZ":
            return "type:" + a
        if dig:
            return "type:class-name"
        if a in BUILTINS:
            return "type:builtin-" + a
        return "type:eof" if a == "$" else "type:other"
    if fn == "templateArg":
        return "templateArg:" + (a if a in "XLJ" else "type")
    if fn == "exprPrimary":
        return "exprPrimary:" + ("L_Z-encoding" if b == "_" else "literal")
    if fn == "expression":
        if ab == "gs":
            return "expression:gs"
        if a == "L":
            return "expression:primary"
        if ab in unary:
            return "expression:unary-" + ab
        if ab == "qu":
            return "expression:qu"
        if ab in ops and not (a == "c" or b == "v"):
            return "expression:binary-" + ab
        if ab in ("cl", "cv", "tl", "il", "dc", "sc", "cc", "rc", "ti", "st", "at", "fp", "fL", "dt", "pt", "ds", "sZ", "sP", "tr"):
            return "expression:" + ab
        if a == "T" and (b == "_" or b.isdigit()):
            return "expression:T-param"
        return "expression:unresolved-name"
    if fn == "unresolvedName":
        if ab == "gs":
            return "unresolvedName:gs"
        if ab == "sr":
            return "unresolvedName:sr"
        return "unresolvedName:base"
    if fn == "baseUnresolvedName":
        return "baseUnresolvedName:" + (ab if ab in ("on", "dn") else "simple-id")
    if fn == "functionType":
        return "functionType:" + ("FY" if b == "Y" else "F")
    if fn == "arrayType":
        return "arrayType:" + ("number" if b.isdigit() else ("empty" if b == "_" else "expression"))
    if fn == "vectorType":
        return "vectorType"
    if fn == "decltype":
        return "decltype:" + (ab if ab in ("DT", "Dt") else "other")
    return fn


def expected_productions(ops, unary):
    e = {"encoding:special", "encoding:name"}
    e |= {"specialName:" + x for x in SPECIAL}
    e |= {"name:N", "name:Z", "name:S", "name:unscoped"}
    e |= {"nestedLoop:" + x for x in ["end", "decltype", "ctor", "dtor", "U", "operator", "source-name", "T", "I", "S", "M",
                                       "L", "qualifier"]}
    e |= {"unqualifiedName:" + x for x in ["C", "D", "Ut", "Ul", "operator", "L-source-name", "source-name"]}
    e |= {"ctorDtorName:" + x for x in CTORS}
    e |= {"operatorName:" + x for x in ops} | {"operatorName:vendor"}
    e |= {"type:cv-qualifier"} | {"type:" + x for x in "PROCGFAMuUINZ"} | {"type:Ts", "type:Tu", "type:Te", "type:T-param"}
    e |= {"type:D" + x for x in D_TYPES + "pvtT"} | {"type:S" + x for x in STD_ABBR} | {"type:S_", "type:S-seq"}
    e |= {"type:class-name"} | {"type:builtin-" + x for x in BUILTINS}
    e |= {"templateArg:" + x for x in ["X", "L", "J", "type"]} | {"exprPrimary:L_Z-encoding", "exprPrimary:literal"}
    e |= {"expression:" + x for x in ["gs", "primary", "qu", "cl", "cv", "tl", "il", "dc", "sc", "cc", "rc", "ti", "st", "at",
                                       "fp", "fL", "dt", "ds", "sZ", "sP", "tr", "T-param", "unresolved-name"]}
    e |= {"expression:unary-" + u[:2] for u in unary}
    # (codes that are also unary operators, and "qu", are matched earlier; "pt" is matched as a binary operator)
    e |= {"expression:binary-" + o for o in ops if not (o[0] == "c" or o[1] == "v") and o not in unary and o != "qu"}
    e |= {"unresolvedName:gs", "unresolvedName:sr", "unresolvedName:base", "baseUnresolvedName:on",
          "baseUnresolvedName:dn", "baseUnresolvedName:simple-id", "functionType:F", "functionType:FY",
          "arrayType:number", "arrayType:empty", "arrayType:expression", "vectorType", "decltype:DT", "decltype:Dt"}
    # (dd_initializer and its loop are dead code: "nw"/"na" are matched as binary operators first)
    e |= {"localName", "nestedName", "templateArgs", "argLoop", "ptrToMember", "exprList", "exprListLoop",
          "unresLoop", "destructorName", "unresolvedType", "simpleId", "ulLoop", "ftLoop", "encLoop", "type"}
    return e


def production_coverage(names, tables):
    """run the model's production trace (`cov`) on the names; returns the coverage summary for the evidence"""
    ops = {a + b for a, b, _ in tables["ops"]}
    unary = {u[:2] for u in tables["unary_ops"]}
    exe = C.uvmodel_path()
    r = subprocess.run([exe, "C13"], input="\n".join("cov " + n.hex() for n in names) + "\n",
                       stdout=subprocess.PIPE, stderr=subprocess.PIPE, text=True, timeout=1200)
    prods = collections.Counter()
    ctx_cov = collections.Counter()
    follow = collections.Counter()
    rets = collections.Counter()
    seen = set()
    counted = set()
    nnames = 0
    for l in r.stderr.split("\n"):
        if l.startswith("COV "):
            _, fn, c0, c1, ty, tm = l.split()
            c0, c1 = int(c0), int(c1)
            lab = production_label(fn, c0, c1, ops, unary)
            prods[lab] += 1
            if fn in ("unqualifiedName", "ctorDtorName", "operatorName"):
                ctx_cov["%s type%s0 templates%s0" % (fn, "!=" if ty == "1" else "==", "!=" if tm == "1" else "==")] += 1
            if ty == "0":
                # template-argument kinds seen at name level, and name components parsed after them
                if fn == "exprPrimary":
                    seen.add("L_Z-encoding" if c1 == 95 else "literal")
                elif fn == "templateArg":
                    seen.add({88: "X-expression", 74: "J-pack", 76: None}.get(c0, "type"))
                elif fn == "nestedLoop" and lab == "nestedLoop:decltype":
                    seen.add("decltype")
                elif tm == "0" and (fn in ("ctorDtorName", "operatorName") or lab in ("unqualifiedName:source-name",
                                                                                         "unqualifiedName:Ut", "unqualifiedName:Ul")):
                    for k in seen:
                        if k and (k, lab.split(":")[0]) not in counted:
                            counted.add((k, lab.split(":")[0]))
                            follow["%s after %s" % (lab.split(":")[0], k)] += 1
        elif l.startswith("RET "):
            _, fn, okf = l.split()
            rets[fn + (":ok" if okf == "1" else ":fail")] += 1
        elif l == "NAME":
            nnames += 1
            seen = set()
            counted = set()
    exp = expected_productions(ops, unary)
    hit = set(prods)
    return {
        "names_traced": nnames,
        "productions_expected": len(exp),
        "productions_hit": len(hit & exp),
        "productions_missed": sorted(exp - hit),
        "productions_hit_counts": dict(sorted(prods.items())),
        "name_emitting_contexts": dict(sorted(ctx_cov.items())),
        "name_components_after_template_argument_kind": dict(sorted(follow.items())),
        "returns": dict(sorted(rets.items())),
    }



def kind_of_impl(i):
    """implementation verdict -> the model's result vocabulary"""
    if i == "HANG":
        return "FUEL"
    if i == "NULL":
        return "NULL"
    if i.startswith("CRASH"):
        for pat, k in (("null_pointer_passed", "nullDeref"), ("SEGV", "nullDeref"), ("out_of_bounds_for_type", "tableOob"),
                       ("signed_integer_overflow", "intOverflow"), ("negative-size-param", "negSize"),
                       ("heap-buffer-overflow", "oob"), ("stack-buffer-overflow", "tableOob")):
            if pat in i:
                return "CRASH " + k
        return i
    return i


def is_str(x):
    return x == "-" or re.fullmatch(r"(?:[0-9a-f]{2})+", x) is not None


def unhex(x):
    return b"" if x == "-" else bytes.fromhex(x)


def mangled_prefix(name):
    body = name[len(GLOBAL_PREFIX):] if name.startswith(GLOBAL_PREFIX) else name
    return body.startswith(b"_Z")


def run(ctx):
    ctx.snapshot()
    try:
        tables = regen_tables(ctx)
    except Exception as e:   # the translator no longer understands the C tables
        C.violation(ctx, "tables", {"kind": "translator-failed", "error": repr(e),
                                    "theorem": "Gen/DemangleTables.lean"}, True)
        return C.finish(ctx)
    ok, problems = C.prove(ctx, "C13")
    if not ok:
        C.violation(ctx, "proof", {"kind": "proof-obligation-broken", "problems": problems}, True)
        return C.finish(ctx)

    exe = os.path.join(ctx.scratch, "h_c13")
    okc, log = ctx.cc(exe, [os.path.join(C.VERIF, "harness/c13_demangle.c"),
                            os.path.join(ctx.src, "utils/demangle.c"),
                            os.path.join(ctx.src, "utils/utils.c"),
                            os.path.join(ctx.src, "utils/debug.c")],
                      extra=["-fsanitize=address,undefined", "-fno-sanitize-recover=all", "-fno-omit-frame-pointer", "-ldl"])
    if not okc:
        C.violation(ctx, "build", {"kind": "harness-build-failed", "log": log[-2000:]}, True)
        return C.finish(ctx)

    quick = ctx.tier == "quick"
    rng = ctx.rng
    gen = load_gen()
    # ---- (a) compiled corpus: expected results come from the declarations
    comp, cinfo = compiled_corpus(ctx, gen, 2 if quick else 16, 170 if quick else 220, 60 if quick else 200)
    # ---- (a') declarations of the shape of c13_mangle_demangle_partial: the Lean `mangle` must produce
    #      exactly the symbols the compilers emit, and `qualifiedName` is the expected result
    thm, have_cxx = theorem_corpus(ctx, 40 if quick else 400)
    thm_missing = [q for q, m, e, found in thm if have_cxx and not found]
    if thm_missing:
        C.violation(ctx, "mangle", {"kind": "model-compiler-disagreement",
                                    "what": "the Lean `mangle` of c13_mangle_demangle_partial does not produce the "
                                            "symbol the installed compilers emit for %d declarations" % len(thm_missing),
                                    "queries": thm_missing[:5], "theorem": "c13_mangle_demangle_partial"}, True)
    # ---- (b) the repo's own names
    vectors, tnames = repo_names(ctx, tables)
    sysn = system_names(300 if quick else 100000, rng)

    cases = []      # (name bytes, expected str or None, class)
    seen = set()

    def add(name, exp, cls):
        if not name or 0 in name or len(name) > 2000:
            return
        if name in seen:
            return
        seen.add(name)
        cases.append((name, exp, cls))

    for s, e, o in comp:
        add(s, e, "compiled:" + o)
    for q, m, e, found in thm:
        if m is not None:
            add(m, e, "compiled:lean-mangle")
    for s, e in vectors:
        add(s, e, "unit-test")
    for s in tnames:
        add(s, None, "repo-tests")
    for s in sysn:
        add(s, None, "libstdc++")
    # plain names: results of the corpus are "already plain"
    for s, e, o in comp[::7]:
        add(e.encode(), e, "plain")
    for s in [b"main", b"foo", b"_start", b"_init", b"__libc_start_main", b"_Z", b"_", b"_R", b"_RNvC1a1b", b"Z", b"_z3foov",
              b"_GLOBAL__sub_I_main", b"_GLOBAL__sub_I_", b"_GLOBAL__sub_I__Z", b"_GLOBAL__sub_I__ZN1aC1Ev",
              b"_GLOBAL__sub_I__ZN2ns3fooEv", b"_GLOBAL__sub_I__Z3barv", b"_GLOBAL__I_a", b"x" * 300]:
        add(s, s.decode() if not mangled_prefix(s) else None, "plain")
    # ---- listed minimal inputs of the known defect classes (always exercised)
    for s in [b"_ZC1v", b"_ZNC1Ev", b"_ZND0Ev", b"_ZCI1", b"_ZT", b"_ZGTtT", b"_Z1fD", b"_ZUlD", b"_Z2147483647x",
              b"_ZUlE2147483647_", b"_ZUlE2147483646_", b"_Z3a$C", b"_Z3a$Cb", b"_Z2$LT$x", b"_ZN2$BP$test3fooE", b"_ZUt_",
              b"_ZNUt_E", b"_Z4294967297x", b"_Z0x1fabcdefghijklmnopqrstuvwxyz01234v", b"_Z010abcdefghv", b"_Z08v"]:
        add(s, None, "listed")
    # ---- (c0) mostly-valid names derived from the grammar (nested names with I…E lists containing L…E, X…E,
    #      L_Z…E, J…E, followed by further components; local names; special names; expressions)
    for s in gen.grammar_names(rng, 3000 if quick else 60000):
        add(s, None, "grammar")
    seeds = [c[0] for c in cases if c[2] != "plain"]
    weighted = [c[0] for c in cases if c[2].startswith(("compiled", "unit-test"))] * 3 + seeds
    # ---- (c) mutations
    # truncation at every length
    ntrunc = 30 if quick else 800
    for s in rng.sample(weighted, min(ntrunc, len(weighted))):
        for k in range(2, len(s)):
            add(s[:k], None, "truncate")
    nmut = 6000 if quick else 250000
    for _ in range(nmut):
        add(mutate(rng, rng.choice(weighted), seeds), None, "mutate")
    # token soup
    for _ in range(1500 if quick else 60000):
        add(b"_Z" + b"".join(rng.choice(TOKENS) for _ in range(rng.randrange(1, 12))), None, "tokens")
    # ---- (d) random bytes
    for _ in range(1000 if quick else 40000):
        pre = rng.choice([b"_Z", b"_ZN", b"_ZT", b"_GLOBAL__sub_I__Z", b"", b"_"])
        add(pre + bytes(rng.randrange(1, 256) for _ in range(rng.randrange(0, 24))), None, "random")

    hexes = [c[0].hex() for c in cases]
    errfile = os.path.join(ctx.scratch, "h_c13.err")
    env = dict(os.environ, ASAN_OPTIONS="detect_leaks=0:allocator_may_return_null=1:handle_abort=1",
               UBSAN_OPTIONS="print_stacktrace=0")
    r = subprocess.run([exe, errfile, "300", "60" if quick else "1500"], input="\n".join(hexes) + "\n", stdout=subprocess.PIPE,
                       stderr=subprocess.PIPE, text=True, env=env, timeout=3000)
    lines = r.stdout.split("\n")
    models = [l[6:] for l in lines if l.startswith("MODEL ")]
    impls = [l[5:] for l in lines if l.startswith("IMPL ")]
    if r.returncode != 0 or len(models) != len(cases) or len(impls) != len(cases):
        C.violation(ctx, "harness", {"kind": "harness-failed", "rc": r.returncode, "stderr": r.stderr[-2000:],
                                     "cases": len(cases), "got": [len(models), len(impls)]}, True)
        return C.finish(ctx)
    nskip = sum(1 for i in impls if i == "SKIP")
    if nskip:
        first = impls.index("SKIP")
        hangs = [cases[i][0].decode("latin-1") for i in range(first) if impls[i] == "HANG"]
        C.violation(ctx, "hangs", {"kind": "property-violated-on-implementation",
                                   "what": "demangle() did not return within 0.3 s CPU time on %d inputs; run abandoned" % len(hangs),
                                   "inputs": hangs[:10], "input": hangs[0] if hangs else None,
                                   "input_hex": hangs[0].encode("latin-1").hex() if hangs else None,
                                   "theorem": "c13_fuel_suffices"}, no_failing_input=False)
        return C.finish(ctx)
    mout = C.run_model("C13", models)

    # ---- compare + monitor
    suspects = []     # indices where impl != repaired model, or the monitor fails
    monitor_fail = {}
    nontrivial = 0
    demangled = 0
    by_class = collections.Counter()
    for i, (name, exp, cls) in enumerate(cases):
        by_class[cls.split(":")[0]] += 1
        ki = kind_of_impl(impls[i])
        bad = None
        if not is_str(impls[i]):
            bad = "demangle() does not return a string: " + impls[i][:120]
        else:
            res = unhex(impls[i])
            if mangled_prefix(name):
                nontrivial += 1
                demangled += res != name
            elif res != name:
                bad = "a name without _Z / _GLOBAL__sub_I__Z prefix was changed"
            if bad is None and exp is not None and res != exp.encode():
                bad = "expected %r for this declaration/test vector, got %r" % (exp, res.decode(errors="replace"))
        if bad:
            monitor_fail[i] = bad
        if bad or ki != mout[i]:
            suspects.append(i)

    # attribute each suspect to the findings whose pre-fix behaviour reproduces the implementation
    attributed = collections.defaultdict(list)   # finding id (or None) -> [case index]
    pre_match = 0
    if suspects:
        q = []
        for i in suspects:
            q.append("dmpre " + hexes[i])
            for b in range(len(FINDINGS)):
                q.append("dmx %s %s" % ("".join("0" if j == b else "1" for j in range(len(FINDINGS))), hexes[i]))
        o = C.run_model("C13", q)
        step = 1 + len(FINDINGS)
        for n, i in enumerate(suspects):
            ki = kind_of_impl(impls[i])
            pre = o[n * step]
            singles = [FINDINGS[b] for b in range(len(FINDINGS)) if o[n * step + 1 + b] == ki]
            if ki == mout[i]:
                attributed[None].append(i)          # model agrees, monitor fails: the model has the defect too
            elif singles:
                attributed[singles[0]].append(i)
                pre_match += 1
            elif pre == ki:
                attributed["multiple"].append(i)
                pre_match += 1
            else:
                attributed["unexplained"].append(i)

    open_findings = {f.get("id"): f for f in C.known_findings("C13")}
    reported = 0
    for fid, idxs in sorted(attributed.items(), key=lambda kv: str(kv[0])):
        # representative: a compiler-produced name whose expected result is known, if the class has one
        idxs.sort(key=lambda i: (i not in monitor_fail, len(cases[i][0]), cases[i][0]))
        i = idxs[0]
        name = cases[i][0]
        obj = {
            "input_hex": hexes[i], "input": name.decode("latin-1"), "class": cases[i][2],
            "impl_output": impls[i], "repaired_model_output": mout[i],
            "what": monitor_fail.get(i), "count": len(idxs),
            "more_inputs": [cases[j][0].decode("latin-1") for j in idxs[1:6]],
            "replay": "printf '%%s' %s | xxd -r -p | xargs -0 %s/misc/demangler   # or: check.py C13 --replay <this file>"
                      % (hexes[i], C.REPO),
        }
        if fid in FINDINGS:
            obj.update({"kind": "property-violated-on-implementation", "finding": fid, "defect": FINDING_TEXT[fid],
                        "matches_prefix_model": True, "theorem": "c13_total_returns_string",
                        "witness": "c13_prefix_%s_witness" % fid.lower()})
            if fid in open_findings:
                C.known(ctx, open_findings[fid], "%s %s input=%r (%d inputs of this class in this run)"
                        % (fid, FINDING_TEXT[fid], name.decode("latin-1"), len(idxs)))
            else:
                C.violation(ctx, fid, obj, no_failing_input=i not in monitor_fail)
                reported += 1
        elif fid is None:
            obj.update({"kind": "property-violated-on-implementation", "theorem": "c13 monitor (model agrees with the code)"})
            C.violation(ctx, "monitor", obj, no_failing_input=False)
        else:
            mon = [j for j in idxs if j in monitor_fail]
            if mon:
                j = mon[0]
                obj.update({"input_hex": hexes[j], "input": cases[j][0].decode("latin-1"), "impl_output": impls[j],
                            "repaired_model_output": mout[j], "what": monitor_fail[j]})
            obj.update({"kind": "model-code-disagreement" if not mon else "property-violated-on-implementation",
                        "attribution": fid, "theorem": "correspondence Demangle.demangle ~ utils/demangle.c:demangle()"})
            C.violation(ctx, "disagree-" + fid, obj, no_failing_input=not mon)

    # ---- production coverage of the model on the well-formed part of the corpus
    trace_names = [c[0] for c in cases if c[2].split(":")[0] in ("compiled", "unit-test", "repo-tests", "libstdc++",
                                                                   "grammar", "tokens")]
    cap = 6000 if quick else 40000
    if len(trace_names) > cap:
        trace_names = random.Random(ctx.seed).sample(trace_names, cap)
    pcov = production_coverage(trace_names, tables)

    samples = []
    for i in range(5, len(cases), max(1, len(cases) // 5)):
        samples.append({"input": cases[i][0].decode("latin-1")[:120], "class": cases[i][2],
                        "impl": impls[i][:160], "model": mout[i][:160]})
    ctx.coverage.update({
        "evaluations": len(cases),
        "distinct_nontrivial": nontrivial,
        "demangled_to_something_else": demangled,
        "rule": "distinct names only. (a) names the installed g++/clang++/rustc emit for generated declarations "
                "(namespaces, nested classes, class/function templates, ctors, dtors, operators, conversion/new/delete; "
                "Rust modules, inherent/generic/trait-impl methods), expected = qualified name of the declaration found "
                "through DWARF line info; thunks (_ZTh/_ZTv/_ZTch/_ZTcv) of generated hierarchies with virtual bases and "
                "covariant return types (expected = the function adjusted to), identifiers that look like hexadecimal words "
                "(head, hadd, h264, dead, …) at every position of a qualified name, g++ static initialisers "
                "_GLOBAL__sub_I_<first global definition> of small units whose first definition is a ctor/dtor/method/"
                "operator/function/variable at global or namespace scope (expected = prefix + qualified name); "
                "(b) DEMANGLE_TEST vectors of utils/demangle.c with their expected strings, "
                "names in tests/, exported libstdc++ names; (c) truncation at every length, byte flips (incl. >= 0x80), "
                "token insertion/deletion/swap/duplication, over-long numbers, C1/D0 without a name, splices, token soup; "
                "(d) random bytes behind _Z/_ZN/_ZT/_GLOBAL__sub_I__Z/no prefix. distinct_nontrivial = names that "
                "reach the parser (have the _Z prefix)",
        "by_class": dict(by_class),
        "compiled_corpus": dict(cinfo),
        "lean_mangle_decls": len(thm), "lean_mangle_not_emitted_by_compilers": len(thm_missing),
        "with_expected_result": sum(1 for c in cases if c[1] is not None),
        "impl_not_a_string": sum(1 for i in impls if not is_str(i)),
        "impl_differs_from_repaired_model": sum(1 for i in range(len(cases)) if kind_of_impl(impls[i]) != mout[i]),
        "of_which_explained_by_prefix_model": pre_match,
        "monitor_failures_on_impl": len(monitor_fail),
        "by_finding": {str(k): len(v) for k, v in attributed.items()},
        "production_coverage": pcov,
        "exhaustive": False,
        "samples": samples,
    })
    ctx.assumptions += [
        "names are C strings (no embedded NUL) of at most 2000 bytes; the C stack depth is not modelled "
        "(observation F10f: a 120 KB name of nested 'Z'/'I' overflows the stack)",
        "strtoul/isdigit/isupper/islower/isxdigit as in glibc 2.36, C locale, 64-bit unsigned long, 32-bit int",
        "DEMANGLE_SIMPLE mode (the default); dd_debug_print and the debug[] trail have no effect on the result",
        "realloc growth of dd->new is abstracted (xrealloc aborts on failure)",
    ]
    return C.finish(ctx)


def replay(ctx, path):
    r = json.load(open(path))
    print(json.dumps(r, indent=1))
    if "input_hex" not in r:
        return 0
    ctx.snapshot()
    exe = os.path.join(ctx.scratch, "h_c13")
    okc, log = ctx.cc(exe, [os.path.join(C.VERIF, "harness/c13_demangle.c"),
                            os.path.join(ctx.src, "utils/demangle.c"),
                            os.path.join(ctx.src, "utils/utils.c"),
                            os.path.join(ctx.src, "utils/debug.c")],
                      extra=["-fsanitize=address,undefined", "-fno-sanitize-recover=all", "-fno-omit-frame-pointer", "-ldl"])
    if not okc:
        print(log)
        return 2
    env = dict(os.environ, ASAN_OPTIONS="detect_leaks=0:allocator_may_return_null=1")
    p = subprocess.run([exe, os.path.join(ctx.scratch, "err"), "2000"], input=r["input_hex"] + "\n",
                       stdout=subprocess.PIPE, text=True, env=env)
    impl = [l[5:] for l in p.stdout.split("\n") if l.startswith("IMPL ")]
    m = C.run_model("C13", ["dm " + r["input_hex"], "dmpre " + r["input_hex"]])
    print("implementation now : %s" % (impl[0] if impl else "?"))
    print("repaired model     : %s" % m[0])
    print("model of the tree  : %s" % m[1])
    return 0 if impl and kind_of_impl(impl[0]) == m[0] else 1
