"""C14 — Dynamic patching instruments exactly the selected functions, safely.
Lean: Uft/Model/Pattern.lean, Uft/Model/Patch.lean, Uft/Props/C14.lean
      (byte tables: Uft/Gen/PatchTables.lean, regenerated from the snapshot).
Tie:  H4 — the real parse_pattern_list / match_pattern_list (real regex / glob /
      strcmp engines supply the match relation as data), the real
      mcount_patch_func / mcount_unpatch_func on generated prologues, and the real
      do_dynamic_update + freeze_dynamic_update on fake modules living in mmap'ed
      regions (page permissions read back from /proc/self/maps);
      H5 — programs built with -fpatchable-function-entry=5 / -pg -mfentry
      -mnop-mcount run under the snapshot's `uftrace record -P … -U … -Z n`, and
      statically instrumented programs (-pg -mfentry with PLT / GOT calls, with and
      without -fcf-protection; -pg -mrecord-mcount) run under `uftrace record -U …`;
      the tracee dumps its maps, its own function bytes and call counters at exit;
      module naming (`run_e2e_libs`): an executable + a DT_NEEDED library + a dlopen()ed
      library installed as real file + links (+ SONAME), selected by every spelling of
      `@MODULE`; expectation = MODULE is a prefix of the real base name or of the SONAME.
      This family needs neither harness nor model: it also runs when the harness does
      not build against the tree under test (reported as harness-build-failed).
Unpatch path (-U): the model has two pre-fix flags (`fixed <unpatch_func> <unpatch_fentry_func>`,
      findings C14-UNPATCH-ANY-CALL and C14-UNPATCH-ENDBR).  The check runs the model in all four
      variants, takes the one the tree agrees with, and evaluates the -U clause of the property with
      monitors that do not use the model (`ref_tracer_call`, `unpatch_verdict`).  A tree that behaves
      like a pre-fix variant is reported per finding: open entry of known_findings.json -> KNOWN-FINDING,
      fixed entry -> VIOLATION (regression, concrete failing input), no entry yet -> PENDING-FINDING
      (exit status 0; the repair is in proposed_fixes/)."""
import glob
import json
import os
import re
import subprocess
import sys
import zlib

from lib import common as C

NOPS = {
    "gcc": bytes([0x90] * 5),                 # -fpatchable-function-entry=5
    "nopmcount": bytes.fromhex("0f1f440000"),  # -pg -mfentry -mnop-mcount
    "clang": bytes.fromhex("0f1f440008"),
    "nop67": bytes.fromhex("670f1f0400"),
}
ENDBR = bytes.fromhex("f30f1efa")
PATCH_TYPES = ("fentry-nop", "fpatchable")
ALL_TYPES = ("none", "pg", "fentry", "fentry-nop", "xray", "fpatchable")
PTYPES = {"simple": 1, "regex": 2, "glob": 3}


def hx(s):
    if isinstance(s, str):
        s = s.encode()
    return s.hex() if s else "-"


def unhx(h):
    return b"" if h == "-" else bytes.fromhex(h)


def run_model(lines, timeout=900):
    """the C14 driver executable (lean/.lake/build/bin/uv_C14), one output line per input line"""
    return C.run_model("C14", lines, timeout)


# ---------------------------------------------------------------- generators
SYM_POOL = ["main", "alpha", "alphabet", "beta", "betamax", "foo", "foo_bar", "bar", "a", "ab", "abc",
            "_start", "x1", "func_10", "func_2", "operator new", "a.b", "a+b", "<1234>", "tiny", "Z",
            "__libc_csu_init", "gamma_fn", "util_a", "util_b", "b", ""]
PATT_POOL = {
    1: ["alpha", "beta", "foo", "a", "", "bar", "a.b", "operator new", "tiny", "x1"],
    2: ["^a", "a.*", "foo|bar", ".*", "b$", "[ab].*", "a+b", "^alpha$", "alpha", "a(", "func_[0-9]+", "^.$",
        "a\\.b", "^(foo|alpha)", "operator new", "bet", "", "t", "^[^a]", "a|", "x?1", "_", "^_", "util_.", "[", "."],
    3: ["a*", "*", "?oo", "[ab]*", "*_bar", "alpha", "alpha*", "*a", "func_?", "a.b", "[!a]*", "", "b*x", "???", "*l*",
        "util_[ab]", "[", "\\*", "*bet*"],
}
MODULES = ["main", "mai", "mainx", "libfoo", "lib", "", "other", "libfoo.so.1", "m", "lib@x", "t-abc"]
LIBPATHS = ["/usr/bin/main", "main", "/lib/libfoo.so.1", "./a/b/mainprog", "/opt/x/other", "libfoo.so", "/t-abc"]
SONAMES = ["~", "~", "libfoo.so.1", "libfoo.so", "main", "other.so"]


def gen_items(rng, ptype, n, names=None, modules=None):
    items = []
    for _ in range(n):
        neg = rng.random() < 0.4
        r = rng.random()
        if names and r < 0.45:
            name = rng.choice(names)
        else:
            name = rng.choice(PATT_POOL[ptype])
        if neg and rng.random() < 0.05:
            name = "!" + name
        mod = None
        if rng.random() < 0.35:
            mod = rng.choice(modules or MODULES)
        items.append((1 if neg else 0, name, mod))
    return items


def items_str(items):
    return "%d %s" % (len(items), " ".join("%d %s %s" % (n, hx(nm), "~" if m is None else hx(m)) for n, nm, m in items)) \
        if items else "0"


def gen_pl(rng):
    ptype = rng.choice([1, 2, 2, 2, 3, 3])
    syms = rng.sample(SYM_POOL, rng.randint(1, 8))
    items = gen_items(rng, ptype, rng.choice([1, 1, 2, 2, 3, 4, 5, 6, 8]), names=syms)
    defmod = rng.choice(["main", "t-abc", "mainprog"])
    lib = rng.choice(LIBPATHS)
    so = rng.choice(SONAMES)
    line = "pl %d %s %s %s %s %d %s" % (ptype, hx(defmod), hx(lib), so if so == "~" else hx(so),
                                        items_str(items), len(syms), " ".join(hx(s) for s in syms))
    return line, {"kind": "pl", "ptype": ptype, "items": items, "defmod": defmod, "lib": lib,
                  "soname": None if so == "~" else so, "syms": syms}


def gen_prologue(rng):
    """(kind, bytes) of a function start"""
    r = rng.random()
    nop = rng.choice(list(NOPS))
    if r < 0.30:
        return "nop:" + nop, NOPS[nop]
    if r < 0.50:
        return "endbr+nop:" + nop, ENDBR + NOPS[nop]
    if r < 0.62:
        b = bytearray(NOPS[nop])
        b[rng.randrange(5)] ^= 1 << rng.randrange(8)
        pre = ENDBR if rng.random() < 0.3 else b""
        return "nearmiss", pre + bytes(b)
    if r < 0.70:
        return "call", b"\xe8" + bytes(rng.randrange(256) for _ in range(4))
    if r < 0.75:
        return "endbr+call", ENDBR + b"\xe8" + bytes(rng.randrange(256) for _ in range(4))
    if r < 0.80:
        return "callgot", b"\xff\x15" + bytes(rng.randrange(256) for _ in range(4))
    if r < 0.84:
        b = bytearray(ENDBR)
        b[rng.randrange(4)] ^= 1 << rng.randrange(8)
        return "badendbr+nop", bytes(b) + NOPS[nop]
    if r < 0.88:
        return "endbr+endbr+nop", ENDBR + ENDBR + NOPS[nop]
    if r < 0.92:
        return "truncated", NOPS[nop][:rng.randint(1, 4)]
    if r < 0.96:
        return "pushrbp", bytes.fromhex("554889e5")
    return "random", bytes(rng.randrange(256) for _ in range(rng.randint(0, 9)))


def gen_pf(rng):
    ty = rng.choice(ALL_TYPES + PATCH_TYPES * 4)
    minsize = rng.choice([0, 0, 0, 1, 5, 6, 7, 16, 100, 4294967295])
    symsize = rng.choice([0, 5, 6, 6, 7, 15, 16, 16, 99, 100, 1000, 4294967295])
    pre = bytes(rng.randrange(256) for _ in range(rng.randint(0, 8)))
    kind, pro = gen_prologue(rng)
    tail = b"" if kind == "truncated" else bytes(rng.randrange(256) for _ in range(rng.randint(0, 12)))
    code = pre + pro + tail
    addr = len(pre)
    o = addr + (4 if code[addr:addr + 4] == ENDBR else 0)
    r = rng.random()
    if r < 0.45:
        mode, tv = "r", 4096 - 16 - rng.randrange(0, 64)
    elif r < 0.65:
        mode, tv = "r", rng.randint(-(1 << 31) + 64, (1 << 31) - 64)
    elif r < 0.72:
        mode, tv = "r", o + 5                       # target_addr == 0
    elif r < 0.80:
        mode, tv = "r", o + 5 + rng.choice([-1, 1, 1 << 32, -(1 << 32), 1 << 33])
    elif r < 0.90:
        mode, tv = "r", rng.choice([-1, 1]) * rng.randint(1 << 31, 1 << 40)
    else:
        mode, tv = "a", rng.choice([0, 1, 0x400ff0, (1 << 63) - 1, 0x7fffffffe000])
    line = "pf %s %d %d %d %s %d %s" % (ty, minsize, symsize, addr, mode, tv, hx(code))
    return line, {"kind": "pf", "ty": ty, "minsize": minsize, "symsize": symsize, "addr": addr,
                  "prologue": kind, "code": code.hex(), "tramp_mode": mode, "tramp": tv}


ENTRY_NAMES = ("__fentry__", "mcount", "_mcount")          # the tracer's entry functions
PLT_NAMES = ["__fentry__", "mcount", "_mcount", "puts", "__fentry__2", "mcount_", "fentry", "__cyg_profile_func_enter",
             "x", "__fentry_", "Mcount"]
NOP5, NOP6 = bytes.fromhex("0f1f440000"), bytes.fromhex("660f1f440000")
PUSH_MOV = bytes.fromhex("554889e5")


def le32s(v):
    return (v & 0xffffffff).to_bytes(4, "little")


def gen_call(rng, site, lo, hi, maplen, tramp, plts, got_free):
    """one call instruction for offset `site` of a module image (offsets relative to map->start):
    returns (kind, bytes, new GOT slots [(off, which)]).  lo/hi = code segment, plts = [(name, addr, size)],
    got_free = offsets where an 8-byte GOT slot may be placed (outside the code segment)."""
    r = rng.random()
    if r < 0.30 and plts:
        name, a, sz = rng.choice(plts)
        inside = rng.choice([0, 0, 0, 4, sz - 1, sz])          # sz: one past the entry
        return "plt:%s+%d" % (name, inside), b"\xe8" + le32s(a + inside - (site + 5)), []
    if r < 0.42 and tramp is not None:
        d = rng.choice([0, 0, 0, 0, 1, -1, 16])
        return "tramp%+d" % d, b"\xe8" + le32s(tramp + d - (site + 5)), []
    if r < 0.52:
        tgt = rng.choice([rng.randrange(lo, max(lo + 1, hi)), rng.randrange(0, maplen), -rng.randrange(1, 1 << 20),
                          maplen + rng.randrange(1 << 20), site + 5])
        return "othercall", b"\xe8" + le32s(tgt - (site + 5)), []
    if r < 0.80 and got_free:
        slot = rng.choice(got_free)
        which = rng.choice([0, 0, 0, 1, 1, 2])
        return "got:%d" % which, b"\xff\x15" + le32s(slot - (site + 6)), [(slot, which)]
    if r < 0.88:
        # a slot that must not count as a GOT entry: inside the code segment, straddling its border,
        # straddling / beyond the end of the mapping, before the mapping
        which = rng.choice([0, 1])
        choices = [maplen - rng.randrange(1, 8), maplen, maplen + rng.randrange(1, 64), -8, -rng.randrange(1, 4096)]
        if hi - lo >= 24:
            choices += [rng.randrange(lo, hi - 8), hi - rng.randrange(1, 8), hi - 8] * 2
        if lo >= 8:
            choices += [lo - rng.randrange(1, 8)]
        slot = rng.choice(choices)
        if site <= slot < site + 16 or site - 8 < slot <= site:     # never over the instruction itself
            slot = -8
        return "badgot:%d" % which, b"\xff\x15" + le32s(slot - (site + 6)), ([(slot, which)] if 0 <= slot <= maplen - 8 else [])
    if r < 0.94:
        return "ff-other", b"\xff" + bytes([rng.choice([0x14, 0x25, 0x10, 0xd0])]) + bytes(rng.randrange(256) for _ in range(4)), []
    return "randcall", bytes([rng.choice([0xe8, 0xe8, 0xe9])]) + bytes(rng.randrange(256) for _ in range(4)), []


def ref_tracer_call(code, site, lo, hi, maplen, tramp, plts, got):
    """the property's notion, independent of the model: is the instruction at `site` a call that enters the tracer —
    `call rel32` to the module's trampoline or to a PLT entry named __fentry__/mcount/_mcount, or `call *disp(%rip)`
    through a GOT slot (inside the mapping, outside the code segment) that holds &__fentry__ / &mcount?
    True / False / None (cannot be told from the case description)."""
    if code[site:site + 1] == b"\xe8":
        if site + 5 > len(code):
            return None
        tgt = site + 5 + s32(code[site + 1:site + 5])
        if tramp is not None and tgt == tramp:
            return True
        for name, a, sz in plts:
            if a <= tgt < a + sz:
                return name in ENTRY_NAMES
        return False
    if code[site:site + 2] == b"\xff\x15":
        if site + 6 > len(code):
            return None
        slot = site + 6 + s32(code[site + 2:site + 6])
        if slot < 0 or slot + 8 > maplen:
            return False
        if lo < slot + 8 and slot < hi:
            return False
        if slot in got:
            return got[slot] in (0, 1)
        if any(abs(slot - o) < 8 for o in got):
            return None
        return False
    return False


def gen_uf(rng):
    ty = rng.choice(("fentry",) * 6 + ("fpatchable",) * 2 + ("pg",) * 3 + ALL_TYPES)
    img = bytearray()
    plts = []
    base = rng.choice([0, 0, 16, 32])
    img += bytes(rng.randrange(256) for _ in range(base))
    for nm in rng.sample(PLT_NAMES, rng.choice([0, 1, 2, 2, 3])):
        plts.append((nm, len(img), 16))
        img += bytes.fromhex("ff25") + bytes(rng.randrange(256) for _ in range(14))
    img += bytes(rng.randrange(256) for _ in range(rng.randint(0, 6)))
    addr = len(img)
    endbr = rng.random() < 0.45
    pre = (ENDBR if endbr else b"") + (PUSH_MOV if ty == "pg" and rng.random() < 0.8 else b"")
    site = addr + len(pre)
    body = bytes(rng.randrange(256) for _ in range(rng.randint(1, 12)))
    textsize = site + 6 + len(body) + rng.choice([0, 0, 3, 16])
    datalen = rng.choice([0, 0, 8, 16, 24, 40])
    maplen = textsize + datalen
    r = rng.random()
    if r < 0.25:
        tramp = None
    elif r < 0.5:
        tramp = rng.choice([4080, maplen, maplen + 16, textsize])         # outside the code segment / the image
    else:
        tramp = rng.randrange(0, textsize)                                  # inside the code segment
    got_free = list(range(textsize, maplen - 7, 8)) + ([maplen - 8] if datalen >= 8 else [])
    got = []
    if rng.random() < 0.22:
        kind, pro = gen_prologue(rng)                                       # NOPs, near misses, random bytes …
        if rng.random() < 0.3:
            kind, pro = "ff14", b"\xff" + bytes([rng.choice([0x14, 0x15, 0x25])]) + b"\x00\x00"
        pre, site = b"", addr
        insn = pro
    else:
        kind, insn, got = gen_call(rng, site, 0, textsize, maplen, tramp, plts, got_free)
        kind = ("endbr+" if endbr else "") + kind
    code = bytes(img) + pre + insn + body
    code = (code + bytes(rng.randrange(256) for _ in range(maplen)))[:max(maplen, len(code))]
    if len(code) > maplen:
        textsize += len(code) - maplen
        maplen = len(code)
    size = rng.choice([len(pre) + len(insn) + len(body), rng.randint(1, 12)])
    loc = "~"
    if ty == "pg" and rng.random() < 0.85:
        loc = "%d" % (site if rng.random() < 0.85 else addr + rng.randrange(size))
    elif rng.random() < 0.1:
        loc = "%d" % (addr + size + rng.randint(0, 3))   # outside the symbol: bsearch fails
    if rng.random() < 0.08:
        textsize = maplen                                # no data at all: nothing can be a GOT slot
    line = "uf %s %d %d %s %s %d %s %d %s %d %s" % (
        ty, addr, size, loc, hx(code), textsize, "~" if tramp is None else "%d" % tramp,
        len(got), " ".join("%d %d" % g for g in got), len(plts), " ".join("%s %d %d" % (hx(n), a, z) for n, a, z in plts))
    return " ".join(line.split()), {"kind": "uf", "ty": ty, "addr": addr, "size": size, "loc": loc, "prologue": kind,
                                    "code": code.hex(), "textsize": textsize, "tramp": tramp, "got": got, "plt": plts}


FLOW_NAMES = ["main", "alpha", "alphabet", "beta", "betamax", "foo", "foo_bar", "bar", "ab", "abc", "x1",
              "func_10", "func_2", "tiny", "gamma_fn", "util_a", "util_b", "_start", "__libc_csu_init", "zed"]


def gen_flow(rng):
    ptype = rng.choice([2, 2, 3])
    minsize = rng.choice([0, 0, 0, 6, 12, 20, 40])
    libs = ["main", "libx.so", "liby.so.1"]
    nmods = rng.choice([1, 1, 2, 3])
    mods = []
    allnames = []
    for k in range(nmods):
        npages = rng.choice([1, 1, 2])
        toff = rng.choice([0, 16, 0x40, 0x100])
        region = npages * 4096
        grow = rng.random() < 0.25
        if grow:
            tend = region - rng.choice([0, 0, 1, 7, 15])
        else:
            page = rng.randrange(npages)
            tend = page * 4096 + rng.choice([4080, 4079, 4000, 2048, 1024, 600])
            if tend <= toff + 0x200:
                tend = toff + 0x200 + 600
        tsize = tend - toff
        ty = rng.choice(PATCH_TYPES * 4 + ("none", "pg", "pg", "fentry", "fentry", "fentry"))
        static = ty in ("pg", "fentry") or (ty == "fpatchable" and rng.random() < 0.3)
        img = bytearray(rng.randrange(256) for _ in range(toff))   # "headers" before text
        pos = toff
        limit = tend - 64
        syms, locs, funcs, got, plts = [], [], [], [], []
        # PLT entries at the start of the code segment (ST_PLT_FUNC symbols merged in from the dynamic symbols)
        if rng.random() < (0.85 if static else 0.3):
            for nm in rng.sample(PLT_NAMES, rng.choice([1, 2, 3])):
                plts.append((nm, pos, 16))
                syms.append((nm, pos, 16, "P"))
                img += bytes.fromhex("ff25") + bytes(rng.randrange(256) for _ in range(14))
                pos += 16
        # room for GOT slots: before the code segment, and between its end and the trampoline / the end of the mapping
        tramp_guess = (tend + 4095) // 4096 * 4096 - 16
        got_free = [o for o in range(0, toff - 7, 8)] + \
                   [o for o in range((tend + 7) // 8 * 8, min(region, tramp_guess) - 7, 8)][:6]
        names = rng.sample(FLOW_NAMES, rng.randint(1, 9))
        for nm in names:
            gap = bytes([0xcc] * rng.choice([0, 0, 3, 11]))
            callsite = None
            if static and rng.random() < 0.75:
                # a statically instrumented (or own-call) function: [endbr64] [push;mov] call …
                pre = (ENDBR if rng.random() < 0.45 else b"") + (PUSH_MOV if ty == "pg" and rng.random() < 0.8 else b"")
                site = pos + len(gap) + len(pre)
                kind, insn, newgot = gen_call(rng, site, toff, tend, region, tramp_guess if rng.random() < 0.5 else None,
                                              plts, got_free)
                kind = ("endbr+" if pre[:4] == ENDBR else "") + kind
                pro = pre + insn
                callsite = site
                got += [g for g in newgot if g[0] not in [x[0] for x in got]]
            else:
                kind, pro = gen_prologue(rng)
                if ty in PATCH_TYPES and rng.random() < 0.5:
                    nop = "gcc" if ty == "fpatchable" else "nopmcount"
                    kind, pro = rng.choice([("nop:" + nop, NOPS[nop]), ("endbr+nop:" + nop, ENDBR + NOPS[nop])])
            body = bytes(rng.randrange(256) for _ in range(rng.choice([1, 2, 8, 20, 33, 60])))
            if pos + len(gap) + len(pro) + len(body) + 16 > limit:
                break
            img += gap
            pos += len(gap)
            addr = pos
            img += pro + body
            pos += len(pro) + len(body)
            size = len(pro) + len(body)
            stype = rng.choice("TTTTtw") if rng.random() < 0.92 else rng.choice("D?")
            has_sym = rng.random() < 0.9
            if has_sym:
                syms.append((nm, addr, size, stype))
            entry = addr + (4 if pro[:4] == ENDBR else 0)
            if ty == "fpatchable":
                if rng.random() < 0.9:
                    locs.append(entry)
            elif ty == "pg" and has_sym and rng.random() < 0.8:
                locs.append(callsite if (callsite is not None and rng.random() < 0.85) else addr + rng.randrange(min(size, 5)))
            funcs.append({"name": nm if has_sym else None, "addr": addr, "size": size, "kind": kind,
                          "stype": stype if has_sym else None, "callsite": callsite})
        img += bytes(rng.randrange(256) for _ in range(max(0, min(limit, region) - pos)))
        img = bytes(img[:region])
        got = [g for g in got if 0 <= g[0] <= len(img) - 8]
        mods.append({"lib": libs[k], "ty": ty, "toff": toff, "tsize": tsize, "setupfails": 1 if rng.random() < 0.1 else 0,
                     "npages": npages, "code": img, "syms": syms, "locs": locs, "funcs": funcs, "grow": grow,
                     "got": got})
        allnames += [s[0] for s in syms if s[3] != "P"]
    items = gen_items(rng, ptype, rng.choice([1, 1, 2, 3, 4, 6]), names=allnames or None,
                      modules=["main", "libx", "liby.so", "lib", "", "other", "m"])
    if rng.random() < 0.3:
        items.append((rng.choice([0, 0, 1]), rng.choice([".", "*"]) if ptype != 3 else "*", rng.choice([None, "lib", ""])))
    parts = ["flow %d %s %d %s %d" % (ptype, hx("main"), minsize, items_str(items), nmods)]
    for m in mods:
        parts.append("%s %s %d %d %d %d %s %d %s %d %s %d %s" % (
            hx(m["lib"]), m["ty"], m["toff"], m["tsize"], m["setupfails"], m["npages"], hx(m["code"]),
            len(m["syms"]), " ".join("%s %d %d %s" % (hx(n), a, s, t) for n, a, s, t in m["syms"]),
            len(m["locs"]), " ".join("%d" % l for l in m["locs"]),
            len(m["got"]), " ".join("%d %d" % g for g in m["got"])))
    line = " ".join(" ".join(p.split()) for p in parts)
    desc = {"kind": "flow", "ptype": ptype, "minsize": minsize, "items": items,
            "mods": [{k: (v.hex() if isinstance(v, bytes) else v) for k, v in m.items() if k != "code"} for m in mods]}
    return line, desc, mods


# ---------------------------------------------------------------- monitors
def ref_verdict(items_parsed, bits_for_name, lib, soname):
    """the property's reference: last matching item decides.
    items_parsed: [(module, positive)], bits_for_name: bits over items."""
    v = "0"
    for j, (module, positive) in enumerate(items_parsed):
        if not (lib.startswith(module) or (soname is not None and soname.startswith(module))):
            continue
        if j < len(bits_for_name) and bits_for_name[j] == "1":
            v = "+" if positive else "-"
    return v


def monitor_pl(desc, model_line, impl):
    t = model_line.split()
    # pl defmod lib so patch nsyms syms… npat bits…
    nsyms = int(t[5])
    bits = t[7 + nsyms:]
    lib = os.path.basename(desc["lib"]) if "/" in desc["lib"] else desc["lib"]
    head, verd, _ = [x.strip() for x in impl.split("|")]
    ht = head.split()
    n = int(ht[0][2:])
    items = desc["items"]
    if n != len(items) and not (len(items) == 0 and n == 1):
        return "parsed %d items out of %d" % (n, len(items))
    parsed = []
    for j, ent in enumerate(ht[1:]):
        nm, mod, pos = ent.split(":")
        parsed.append((unhx(mod).decode(), pos == "+"))
        if items:
            neg, name, module = items[j]
            if unhx(nm).decode() != name or (pos == "+") == bool(neg) or \
                    unhx(mod).decode() != (desc["defmod"] if module is None else module):
                return "item %d parsed as %s" % (j, ent)
    for i in range(nsyms):
        col = "".join(b[i] if b != "-" else "0" for b in bits) if items else "0"
        want = ref_verdict(parsed, col, lib, desc["soname"])
        if verd[i] != want:
            return "symbol %r: verdict %s, last matching item says %s" % (desc["syms"][i], verd[i], want)
    return None


def s32(b):
    v = int.from_bytes(b, "little")
    return v - (1 << 32) if v >= 1 << 31 else v


def site_of(code, addr):
    return addr + (4 if code[addr:addr + 4] == ENDBR else 0)


def monitor_pf(desc, model_line, impl):
    t = model_line.split()
    start, addr, tramp = int(t[4], 16), int(t[5], 16), int(t[6], 16)
    code = unhx(t[7])
    rc, after = impl.split()
    rc = int(rc[3:])
    after = unhx(after)
    if len(after) != len(code):
        return "length changed"
    o = site_of(code, addr)
    window = (code[o:o + 5] + bytes(5))[:5]
    diff = [i for i in range(len(code)) if code[i] != after[i]]
    if desc["symsize"] < max(desc["minsize"], 6) and diff:
        return "size filter: function of size %d patched with min size %d" % (desc["symsize"], desc["minsize"])
    if window not in NOPS.values() and diff:
        return "unpatchable prologue %s modified at %s" % (window.hex(), diff)
    if desc["ty"] not in PATCH_TYPES and diff:
        return "module type %s patched" % desc["ty"]
    if any(i < o or i >= o + 5 for i in diff):
        return "bytes outside [o,o+5) modified: %s" % diff
    if diff or rc == 0:
        if after[o:o + 1] != b"\xe8" and o < len(code):
            return "patched site does not start with the call opcode"
        if o + 5 <= len(code):
            d = tramp - (start + o + 5)
            if -(1 << 31) <= d < (1 << 31) and s32(after[o + 1:o + 5]) != d:
                return "call displacement %d does not reach the trampoline (%d)" % (s32(after[o + 1:o + 5]), d)
    # what compilers emit must be recognised
    if window in (NOPS["gcc"], NOPS["nopmcount"]) and desc["ty"] in PATCH_TYPES and \
            desc["symsize"] >= max(desc["minsize"], 6) and (tramp - (start + o + 5)) % (1 << 32) != 0:
        if rc != 0 or (o < len(code) and after[o] != 0xe8):
            return "compiler-emitted NOP prologue not patched (rc=%d)" % rc
    return None


def unpatch_verdict(code, after, site, asis_site, ent, what):
    """the -U clause of the property for one function: [(tag, message)].
    code/after = image before/after, site = where the function's tracer call would be (after an optional endbr64;
    the __mcount_loc entry for -pg), None when this module type / function is never unpatched; ent = ref_tracer_call at
    `site`; asis_site = the symbol's first byte.  tag = the finding whose shape the failure has, or None."""
    diff = [i for i in range(len(code)) if code[i] != after[i]]
    out = []
    if site is None:
        if diff:
            out.append((None, "%s: not to be unpatched, but bytes %s changed" % (what, diff[:8])))
        return out
    n = 5 if code[site:site + 1] == b"\xe8" else 6
    if diff:
        inside = all(site <= i < site + n for i in diff)
        if ent is False or (ent is None and not inside) or (ent is True and not inside):
            # shape of C14-UNPATCH-ANY-CALL: the function's entry is a call that does not enter the tracer and exactly
            # that call was replaced by a NOP
            # (at the symbol's first byte in the code as it is; behind the endbr64 once that is skipped)
            anycall = (code[site:site + 1] == b"\xe8" or code[site:site + 2] == b"\xff\x15") and inside and \
                after[site:site + n] == (NOP5 if n == 5 else NOP6) and ent is False
            out.append(("anycall" if anycall else None,
                        "%s: -U overwrote bytes %s which are not a call into the tracer (%s -> %s)"
                        % (what, diff[:8], code[min(diff):min(diff) + 6].hex(), after[min(diff):min(diff) + 6].hex())))
        elif ent is True and after[site:site + n] != (NOP5 if n == 5 else NOP6):
            out.append((None, "%s: the tracer call was not replaced by the NOP of its length: %s"
                        % (what, after[site:site + n].hex())))
    if ent is True and code[site:site + n] == after[site:site + n]:
        # shape of C14-UNPATCH-ENDBR: the function starts with endbr64 and the call behind it is still there
        out.append(("endbr" if site == asis_site + 4 and code[asis_site:asis_site + 4] == ENDBR else None,
                    "%s: selected by -U but still calls the tracer (%s)" % (what, code[asis_site:asis_site + 10].hex())))
    return out


def monitor_uf(desc, model_line, impl):
    t = model_line.split()       # uf ty addr size loc code …
    code = unhx(t[5])
    rc, after = impl.split()
    after = unhx(after)
    if len(after) != len(code):
        return [(None, "length changed")]
    addr, ty = desc["addr"], desc["ty"]
    if "textsize" not in desc:       # corpus / old-format case: structural part only
        diff = [i for i in range(len(code)) if code[i] != after[i]]
        lo = int(t[4], 0) if (ty == "pg" and t[4] != "~") else addr
        if any(i < lo or i >= lo + 10 for i in diff):
            return [(None, "unpatch wrote outside the entry bytes: %s" % diff)]
        return []
    if ty in ("fentry", "fpatchable"):
        site = site_of(code, addr)
    elif ty == "pg" and t[4] != "~" and addr <= int(t[4], 0) < addr + desc["size"]:
        site = int(t[4], 0)
    else:
        site = None
    ent = None
    if site is not None:
        ent = ref_tracer_call(code, site, 0, desc["textsize"], len(code), desc["tramp"],
                              [tuple(x) for x in desc["plt"]], {o: w for o, w in desc["got"]})
    return unpatch_verdict(code, after, site, site if ty == "pg" else addr, ent, "function at %d (%s)" % (addr, ty))


def parse_flow_model(line):
    """MODEL flow line -> (per module dict incl. bits per name)"""
    segs = [s.split() for s in line.split(" | ")]
    head = segs[0]
    mods = []
    for s in segs[1:]:
        m = {"lib": unhx(s[0]).decode(), "ty": s[1], "start": int(s[2], 16), "textaddr": int(s[3], 16),
             "tsize": int(s[4]), "setupfails": s[5] == "1", "npages": int(s[6]), "perms": s[7],
             "code": unhx(s[8]), "syms": [], "locs": [], "bits": {}, "plts": []}
        i = 9
        while i < len(s):
            if s[i] == "S":
                nm = unhx(s[i + 1]).decode()
                m["syms"].append((nm, int(s[i + 2], 16), int(s[i + 3]), s[i + 4] == "1"))
                if s[i + 4] == "P":
                    m["plts"].append((nm, int(s[i + 2], 16), int(s[i + 3])))
                m["bits"][nm] = s[i + 5]
                i += 6
            else:
                l = int(s[i + 1], 16)
                m["locs"].append(l)
                m["bits"]["<%x>" % l] = s[i + 2]
                i += 3
        mods.append(m)
    return {"minsize": int(head[3]), "fentry": int(head[4], 16)}, mods


def parse_flow_out(line):
    segs = [s.split() for s in line.split(" | ")]
    mods = []
    for s in segs[:-1]:
        mods.append({"tramp": int(s[0][6:], 16), "tsize": int(s[1][6:]), "mid": s[2][4:], "post": s[3][5:],
                     "code": unhx(s[4])})
    return mods, [int(x) for x in segs[-1][1:]]


CSU = ("_start", "__libc_csu_init", "__libc_csu_fini")


def flow_targets(m):
    """the symbols the property speaks about in module m: (name, addr, size)"""
    out = []
    if m["ty"] == "fpatchable":
        for l in m["locs"]:
            s = [x for x in m["syms"] if x[1] <= l < x[1] + x[2]]
            if not s:
                out.append(("<%x>" % l, l, 0xffffffff))
            elif s[0][0] not in CSU and s[0][3]:
                out.append(s[0][:3])
    else:
        out = [x[:3] for x in m["syms"] if x[0] not in CSU and x[3]]
    return out


def monitor_flow(desc, model_line, impl):
    head, mods = parse_flow_model(model_line)
    outs, stats = parse_flow_out(impl)
    items = [(("main" if mod is None else mod), not neg) for neg, nm, mod in desc["items"]]
    res = []
    for k, (m, o) in enumerate(zip(mods, outs)):
        code, after = m["code"], o["code"]
        got = {g[0]: g[1] for g in desc["mods"][k].get("got", [])} if k < len(desc.get("mods", [])) else {}
        # W^X: after the freeze nothing of the module is writable; nothing became writable
        for i, (a, b) in enumerate(zip(m["perms"], o["post"])):
            if b in "Ww" and a not in "Ww":
                return "module %s: page %d is writable after the freeze (%s -> %s)" % (m["lib"], i, m["perms"], o["post"])
        diff = [i for i in range(len(code)) if code[i] != after[i]]
        allowed = set()
        tr = o["tramp"] - m["start"]
        if o["tramp"]:
            allowed |= set(range(tr, tr + 16))
        lo = m["textaddr"] - m["start"]
        hi = lo + o["tsize"]
        maplen = m["npages"] * 4096
        want_patched = {}
        unpatch = []      # (name, site, asis_site, ent)
        for nm, addr, size in flow_targets(m):
            v = ref_verdict(items, m["bits"].get(nm, ""), m["lib"], None)
            site = site_of(code, addr)
            window = (code[site:site + 5] + bytes(5))[:5]
            if v == "+" and size >= max(head["minsize"], 6) and window in NOPS.values() and \
                    m["ty"] in PATCH_TYPES and not m["setupfails"]:
                allowed |= set(range(site, site + 5))
                if window in (NOPS["gcc"], NOPS["nopmcount"]):
                    want_patched[nm] = site
            elif v == "-" and m["ty"] in ("fentry", "fpatchable", "pg") and not m["setupfails"]:
                # -U turns the function's call into the tracer into a NOP, and nothing else
                if m["ty"] == "pg":
                    ls = [l for l in m["locs"] if addr <= l < addr + size]
                    if len(ls) != 1:
                        if ls:      # several __mcount_loc entries in one symbol: bsearch may pick any
                            for l in ls:
                                allowed |= set(range(l, l + 6))
                        continue
                    site = asis = ls[0]
                else:
                    asis = addr
                ent = ref_tracer_call(code, site, lo, hi, maplen, tr if o["tramp"] else None, m["plts"], got)
                n = 5 if code[site:site + 1] == b"\xe8" else 6
                if ent is not False:
                    allowed |= set(range(site, site + n))
                unpatch.append((nm, site, asis, ent))
        starts = sorted(a for _, a, _ in flow_targets(m))
        claimed = set()
        for nm, site, asis, ent in unpatch:
            # evaluate the -U clause on this function's own entry bytes (everything else: `allowed` below)
            w1 = min([asis + 10] + [a for a in starts if a > asis])
            sub_after = bytes(code[:asis]) + bytes(after[asis:w1]) + bytes(code[w1:])
            res += unpatch_verdict(bytes(code), sub_after, site, asis, ent, "module %s: function %s" % (m["lib"], nm))
            claimed |= set(range(asis, w1))
        bad = [i for i in diff if i not in allowed and i not in claimed]
        if bad:
            return "module %s: bytes modified outside selected patch sites: offsets %s" % (m["lib"], bad[:8])
        for nm, site in want_patched.items():
            if after[site] != 0xe8 or m["start"] + site + 5 + s32(after[site + 1:site + 5]) != o["tramp"]:
                return "module %s: selected function %s not patched to call the trampoline" % (m["lib"], nm)
        for nm, addr, size in flow_targets(m):
            site = site_of(code, addr)
            if code[site] != 0xe8 and after[site] == 0xe8 and nm not in want_patched:
                window = (code[site:site + 5] + bytes(5))[:5]
                v = ref_verdict(items, m["bits"].get(nm, ""), m["lib"], None)
                if v != "+" or size < max(head["minsize"], 6):
                    return "module %s: function %s (verdict %s, size %d) was patched" % (m["lib"], nm, v, size)
    return res


MONITORS = {"pl": monitor_pl, "pf": monitor_pf, "uf": monitor_uf, "flow": monitor_flow}
THEOREM = {"pl": "c14_last_match_wins", "pf": "c14_patch_is_local / c14_unpatchable_untouched / c14_size_filter",
           "uf": "c14_unpatch_is_local / c14_unpatch_exact / c14_unpatch_restores", "flow": "c14_traced_set_exact / c14_wx_after_freeze"}


# ---------------------------------------------------------------- H5: end to end
E2E_FUNCS = ["alpha", "alphabet", "beta", "betamax", "gamma_fn", "tiny", "util_a", "util_b", "zed", "foo_bar"]

E2E_TEMPLATE = r"""
#include <stdio.h>
#include <stdlib.h>
#include <string.h>
#define NI __attribute__((noinline, noclone))
static volatile unsigned sink;
static unsigned long cnt[%(n)d];
%(protos)s
%(bodies)s
#ifdef OWNCALL
/* not instrumented, and its first instruction is a call of its own (gcc -O2: `call own_leaf; add $1,%%eax; ret`) */
#define NINI __attribute__((noinline, noclone, no_instrument_function))
NINI static unsigned own_leaf(unsigned x) { return x * 7u + 3u; }
NINI unsigned own_call(unsigned x) { return own_leaf(x) + 1u; }
#define OWN_NAMES , "own_call"
#define OWN_FNS , (void *)own_call
#define OWN_N 1
#else
#define own_call(x) ((x) * 7u + 4u)
#define OWN_NAMES
#define OWN_FNS
#define OWN_N 0
#endif
typedef unsigned (*fn_t)(unsigned);
static void dump_state(void)
{
	static const char *names[] = { %(names)s, "main", "dump_state" OWN_NAMES };
	extern int main(int, char **);
	void *fns[] = { %(fnptrs)s, (void *)main, (void *)dump_state OWN_FNS };
	FILE *f = fopen("/proc/self/maps", "r");
	char l[512];
	unsigned long lo = 0, hi = 0;
	int i, j;
	while (f && fgets(l, sizeof l, f)) {
		unsigned long a, b;
		fprintf(stderr, "MAPS %%s", l);
		if (sscanf(l, "%%lx-%%lx", &a, &b) == 2 && a <= (unsigned long)main && (unsigned long)main < b) {
			lo = a;
			hi = b;
		}
	}
	if (f)
		fclose(f);
	for (i = 0; i < %(n)d + 2 + OWN_N; i++) {
		unsigned char *p = fns[i];
		fprintf(stderr, "FUNC %%s %%lx %%lu ", names[i], (unsigned long)p, i < %(n)d ? cnt[i] : 1UL);
		for (j = 0; j < 16; j++)
			fprintf(stderr, "%%02x", p[j]);
		fprintf(stderr, "\n");
	}
	if (hi) {
		unsigned char *p = (unsigned char *)hi - 16;
		fprintf(stderr, "TEXTEND %%lx %%lx ", lo, hi);
		for (j = 0; j < 16; j++)
			fprintf(stderr, "%%02x", p[j]);
		fprintf(stderr, "\n");
	}
}
int main(int argc, char **argv)
{
	unsigned r = argc;
	atexit(dump_state);
%(calls)s
	r += own_call(r %% 11);
	printf("result %%u\n", r);
	return 0;
}
"""


def gen_program(rng, idx):
    n = rng.randint(5, len(E2E_FUNCS))
    names = rng.sample(E2E_FUNCS, n)
    protos = "\n".join("NI unsigned %s(unsigned x);" % f for f in names)
    bodies = []
    for i, f in enumerate(names):
        lines = ["NI unsigned %s(unsigned x)\n{\n\tcnt[%d]++;" % (f, i)]
        kind = rng.random()
        if f == "tiny" or kind < 0.25:
            lines.append("\treturn x + %d;" % rng.randint(1, 9))
        else:
            callees = [g for g in names[i + 1:] if rng.random() < 0.5][:3]
            lines.append("\tunsigned s = x * %du;" % rng.randint(3, 99))
            if kind > 0.6:
                lines.append("\tfor (unsigned i = 0; i < %d; i++) { sink += s ^ i; s = s * 33u + i; }" % rng.randint(2, 5))
            for g in callees:
                lines.append("\ts += %s(s %% %d);" % (g, rng.randint(5, 50)))
            if kind > 0.85:
                lines.append("\tif (s & 1) s ^= 0x%x; else s += sink;" % rng.randrange(1 << 16))
            lines.append("\treturn s;")
        lines.append("}")
        bodies.append("\n".join(lines))
    calls = "\n".join("\tr += %s(r %% 13 + %d);" % (f, rng.randint(1, 5)) for f in names for _ in range(rng.randint(1, 2)))
    src = E2E_TEMPLATE % {"n": n, "protos": protos, "bodies": "\n".join(bodies),
                          "names": ", ".join('"%s"' % f for f in names),
                          "fnptrs": ", ".join("(void *)%s" % f for f in names), "calls": calls}
    return names, src


E2E_BUILDS = [
    ("patchable", ["-O1", "-fpatchable-function-entry=5"]),
    ("nopmcount", ["-O1", "-pg", "-mfentry", "-mnop-mcount", "-no-pie", "-fno-pic"]),
    ("patchable-cet", ["-O1", "-fcf-protection=full", "-fpatchable-function-entry=5"]),
    ("nopmcount-cet", ["-O1", "-pg", "-mfentry", "-mnop-mcount", "-fcf-protection=full", "-no-pie", "-fno-pic"]),
    # statically instrumented: every function starts with a call into the tracer, -U turns it into a NOP
    ("fentry-pie-cet", ["-O2", "-pg", "-mfentry", "-fcf-protection=full"]),      # endbr64; call *__fentry__@GOTPCREL(%rip)
    ("fentry-plt", ["-O2", "-pg", "-mfentry", "-fcf-protection=none", "-no-pie", "-fno-pic"]),   # call __fentry__@plt
    ("fentry-pie", ["-O2", "-pg", "-mfentry", "-fcf-protection=none"]),
    ("fentry-plt-cet", ["-O2", "-pg", "-mfentry", "-fcf-protection=full", "-no-pie", "-fno-pic"]),
    ("pg-mcountloc-cet", ["-O1", "-pg", "-mrecord-mcount", "-fcf-protection=full", "-no-pie", "-fno-pic"]),
    ("patchable-nopie-O2", ["-O2", "-fpatchable-function-entry=5", "-no-pie", "-fno-pic"]),
    ("nopmcount-cet-O0", ["-O0", "-pg", "-mfentry", "-mnop-mcount", "-fcf-protection=full", "-no-pie", "-fno-pic"]),
    ("plain", ["-O1"]),
]
QUICK_BUILDS = 6        # the quick tier uses the first six
WITNESS = "c14_prefix_endbr_nop_undetected_witness"


def is_static_build(bname):
    return bname.startswith(("fentry", "pg"))


def gen_e2e_config(rng, names, static=False, own=False):
    ptype = rng.choice(["regex", "regex", "glob"])
    opts = []
    k = rng.choice([1, 2, 2, 3, 4])
    for _ in range(k):
        neg = rng.random() < (0.75 if static else 0.4)
        r = rng.random()
        if static and r < 0.2:
            p = rng.choice(["own_call", "own", "own_call"]) if ptype == "regex" else rng.choice(["own_call", "own*"])
        elif r < 0.45:
            p = rng.choice(names + ["main"])
        elif ptype == "regex":
            p = rng.choice(["^a", "alpha.*", "^b", "bet", "util_.", ".", "a$", "_", "^[a-g]", "t", "(alpha|zed)", "^main$", "a+"])
        else:
            p = rng.choice(["a*", "*", "b*", "util_?", "*a", "[a-g]*", "*_*", "?????", "*bet*", "main"])
        opts.append(("U" if neg else "P", p))
    if static:
        if all(o == "P" for o, _ in opts):
            opts.append(("U", rng.choice(names)))
        if own:      # the first configuration of every static build selects the own-call function for unpatching
            opts.append(("U", "own_call"))
    elif all(o == "U" for o, _ in opts):
        opts.insert(0, ("P", "." if ptype == "regex" else "*"))
    # -Z is also a record-time size filter for every function (mcount_min_size): kept out of the -U runs
    z = 0 if static else rng.choice([0, 0, 0, 24, 40, 64])
    return ptype, opts, z


def elf_info(path):
    """text LOAD segment (vaddr, memsz, offset), ET_DYN?, symbols {name: (addr, size)},
    scan list [(name, addr, is_local_or_global)], section type, check_trace_functions() result"""
    out = C.sh(["readelf", "-hlSW", path]).stdout
    dyn = bool(re.search(r"Type:\s+DYN", out))
    text = None
    for m in re.finditer(r"LOAD\s+(0x[0-9a-f]+)\s+(0x[0-9a-f]+)\s+0x[0-9a-f]+\s+0x[0-9a-f]+\s+(0x[0-9a-f]+)\s+(R ?E)", out):
        text = (int(m.group(2), 16), int(m.group(3), 16), int(m.group(1), 16))
        break
    sect = "fpatchable" if "__patchable_function_entries" in out else "xray" if "xray_instr_map" in out else "~"
    syms = {}
    scan = []
    prev = None
    for l in C.sh(["nm", "-n", "-S", "--defined-only", path]).stdout.split("\n"):
        t = l.split()
        # libmcount's symtab: sized FUNC symbols, aliases (same address as the previous one) dropped
        if len(t) == 4 and t[2] in "TtWw" and int(t[1], 16) > 0:
            if t[2] in "Tt":
                syms[t[3]] = (int(t[0], 16), int(t[1], 16))
            if prev != t[0]:
                scan.append((t[3], int(t[0], 16), t[2] in "Tt"))
            prev = t[0]
    fallback = "none"
    for l in C.sh(["readelf", "--dyn-syms", "-W", path]).stdout.split("\n"):
        t = l.split()
        if len(t) >= 8 and t[3] in ("FUNC", "IFUNC"):
            nm = t[7].split("@")[0]
            if nm in ("__cyg_profile_func_enter", "__fentry__", "mcount", "_mcount", "__gnu_mcount_nc"):
                fallback = {"__cyg_profile_func_enter": "none", "__fentry__": "fentry"}.get(nm, "pg")
                break
    return text, dyn, syms, scan, sect, fallback


def run_e2e(ctx, hexe, uft, failures, cov, model_ok=True, only=None, present=()):
    """`only` = a replay object: re-evaluate exactly that program / build / option list.
    failures: (name, replay obj, what, is_monitor); a replay obj may carry "finding_tag" (shape of a finding)."""
    nprog = 1 if only else 2 if ctx.tier == "quick" else 8
    ncfg = 1 if only else 2 if ctx.tier == "quick" else 5
    builds = [(only["build"], only["flags"])] if only else E2E_BUILDS[:QUICK_BUILDS] if ctx.tier == "quick" else E2E_BUILDS
    known = [f for f in C.known_findings("C14") if WITNESS in f.get("witness_theorems", [])]
    prefix_hits = 0
    wd = os.path.join(ctx.scratch, "e2e")
    os.makedirs(wd, exist_ok=True)
    runs = 0
    traced_total = unpatched_total = 0
    sigs = set()
    samples = []
    nplain = sum(1 for f in failures)
    for pi in range(nprog):
        names, src = (only["names"], only["source"]) if only else gen_program(ctx.rng, pi)
        cfile = os.path.join(wd, "p%d.c" % pi)
        open(cfile, "w").write(src)
        if only or ctx.tier == "thorough" or pi == 0:
            picks = list(range(len(builds)))
        else:
            picks = [3, 1 + pi % 2, 4 + pi % 2]
        for bi in picks:
            bname, flags = builds[bi]
            static = is_static_build(bname)
            exe = os.path.join(wd, "p%d-%s" % (pi, bname))
            r = C.sh(["gcc", "-w"] + flags + (["-DOWNCALL"] if static else []) + [cfile, "-o", exe])
            if r.returncode != 0:
                ctx.notes.append("e2e build %s failed: %s" % (bname, r.stdout[-200:]))
                continue
            text, dyn, syms, scan, sect, fallback = elf_info(exe)
            disk = open(exe, "rb").read()

            def ondisk_at(vaddr, n=16):
                off = vaddr - text[0] + text[2]
                return disk[off:off + n]
            dt = " ".join("%s %d %s" % (hx(n), 1 if lg else 0, ondisk_at(a, 9).hex())
                          for n, a, lg in scan if text[0] <= a < text[0] + text[1])
            t0, t1 = run_model(["dt 0 %s %s %s" % (sect, fallback, dt),
                                "dt 1 %s %s %s" % (sect, fallback, dt)]) if model_ok else (None, None)
            nat = subprocess.run([exe], stdout=subprocess.PIPE, stderr=subprocess.PIPE, text=True, timeout=20, cwd=wd)
            mcount_locs = []
            if static and bname.startswith("pg"):
                # the __mcount_loc section (-mrecord-mcount): addresses of the `call mcount` instructions
                raw = exe + ".mcount_loc"
                C.sh(["objcopy", "-O", "binary", "--only-section=__mcount_loc", exe, raw])
                try:
                    blob = open(raw, "rb").read()
                except OSError:
                    blob = b""
                mcount_locs = [int.from_bytes(blob[i:i + 8], "little") for i in range(0, len(blob) - 7, 8)]
            allnames = names + ["main", "dump_state"] + (["own_call"] if static and "own_call" in syms else [])
            for ci in range(ncfg):
                ptype, opts, z = (only["match"], [tuple(o) for o in only["options"]], only["size_filter"]) if only \
                    else gen_e2e_config(ctx.rng, names, static, own=(ci == 0))
                # enough evidence; bound the cost of a broken tree (cases explained by a present finding do not count)
                if sum(1 for f in failures[nplain:] if f[1].get("finding_tag") not in present) >= 4:
                    continue
                data = os.path.join(wd, "d-%d-%d-%d" % (pi, bi, ci))
                logf = data + ".log"
                cmd = ["timeout", "10", uft, "record", "--libmcount-path=" + os.path.join(ctx.src, "libmcount"),
                       "-v", "--logfile=" + logf, "--no-libcall", "--no-event", "--match=" + ptype, "-d", data]
                for o, p in opts:
                    cmd += ["-" + o, p]
                if z:
                    cmd += ["-Z", str(z)]
                cmd.append(exe)
                rr = subprocess.run(cmd, stdout=subprocess.PIPE, stderr=subprocess.PIPE, text=True, cwd=wd)
                runs += 1
                # shared-memory buffers of this session that the recorder did not unlink
                for sm in glob.glob(os.path.join(data, "sid-*.map")):
                    sid = os.path.basename(sm)[4:-4]
                    for shm in glob.glob("/dev/shm/uftrace-%s-*" % sid):
                        try:
                            os.unlink(shm)
                        except OSError:
                            pass
                rep = {"kind": "e2e", "program": "p%d" % pi, "build": bname, "flags": flags, "match": ptype,
                       "options": opts, "size_filter": z, "names": names, "source": src, "cmd": " ".join(cmd)}
                # the match relation from the real engines, the verdicts from the real list code
                items = [(1 if o == "U" else 0, p, None) for o, p in opts]
                pl = "pl %d %s %s ~ %s %d %s" % (PTYPES[ptype], hx(os.path.basename(exe)), hx(exe), items_str(items),
                                                len(allnames), " ".join(hx(s) for s in allnames))
                hr = subprocess.run([hexe], input=pl + "\n", stdout=subprocess.PIPE, stderr=subprocess.PIPE, text=True)
                hl = hr.stdout.split("\n")
                mline = [l[6:] for l in hl if l.startswith("MODEL ")][0]
                mt = mline.split()
                bits = mt[7 + len(allnames):]
                wants = {}
                for i, f in enumerate(allnames):
                    col = "".join(b[i] for b in bits)
                    wants[f] = ref_verdict([("", not n) for n, _, _ in items], col, "", None)
                own_hit = static and wants.get("own_call") == "-"
                if rr.returncode != 0 or rr.stdout != nat.stdout:
                    if own_hit:
                        # shape of C14-UNPATCH-ANY-CALL: -U selects a function whose first instruction is its own call
                        rep["finding_tag"] = "anycall"
                    failures.append(("e2e-output", rep, "program output under uftrace differs from native (rc=%d): %r vs %r"
                                     % (rr.returncode, rr.stdout[-200:], nat.stdout[-200:]), True))
                    continue
                # what the tracee saw of itself
                funcs, maps, textend = {}, [], None
                for l in rr.stderr.split("\n"):
                    t = l.split()
                    if l.startswith("FUNC "):
                        funcs[t[1]] = (int(t[2], 16), int(t[3]), bytes.fromhex(t[4]))
                    elif l.startswith("MAPS "):
                        maps.append(t[1:])
                    elif l.startswith("TEXTEND "):
                        textend = (int(t[1], 16), int(t[2], 16), bytes.fromhex(t[3]))
                if not funcs or not textend:
                    failures.append(("e2e-dump", rep, "tracee produced no self dump: %r" % rr.stderr[-300:], False))
                    continue
                # module type as the real mcount_arch_find_module decided it
                try:
                    mt = re.search(r"dynamic patch type: \S+: \d+ \(([\w-]+)\)", open(logf, errors="replace").read())
                except OSError:
                    mt = None
                impl_ty = mt.group(1) if mt else None
                rep["detected_type"] = impl_ty
                rep["model_type_prefix"], rep["model_type_fixed"] = t0, t1
                prefix = False
                if model_ok:
                    if impl_ty == t1:
                        ty = t1
                    elif impl_ty == t0:
                        # the implementation behaves like the pre-fix model (fixed = false)
                        prefix = True
                        prefix_hits += 1
                        ty = t0
                        what = ("%s (%s): every function starts with endbr64 + NOP, mcount_arch_find_module classifies the "
                                "module as '%s' instead of '%s', so -P patches nothing (matches the pre-fix model, %s)"
                                % (bname, " ".join(flags), t0, t1, WITNESS))
                        if known:
                            C.known(ctx, known[0], "%s %s" % (known[0].get("id", "?"), what))
                        elif not any(f[0] == "e2e-detect" for f in failures):
                            rep2 = dict(rep)
                            rep2["theorem"] = "c14_detect_agrees_with_patcher (fixed) / " + WITNESS
                            failures.append(("e2e-detect", rep2, what, True))
                    else:
                        failures.append(("e2e-detect-model", rep, "module type: implementation says %s, model says %s "
                                         "(pre-fix) / %s (fixed)" % (impl_ty, t0, t1), False))
                        continue
                else:
                    ty = impl_ty or "none"
                rp = subprocess.run(["timeout", "30", uft, "report", "-d", data, "--no-pager", "-f", "call"],
                                    stdout=subprocess.PIPE, stderr=subprocess.PIPE, text=True)
                traced = {}
                for l in rp.stdout.split("\n"):
                    t = l.split()
                    if len(t) == 2 and t[0].isdigit():
                        traced[t[1]] = int(t[0])
                mverd = run_model([mline])[0].split("|")[1].strip() if model_ok else None
                base = funcs["main"][0] - syms["main"][0] if dyn else 0
                tstart = base + text[0]
                tend = tstart + text[1]
                tramp = (tend + 4095) // 4096 * 4096 - 16
                if tramp < tend:
                    tramp += 16
                pf_lines = []
                bad = None      # (message, is_monitor, finding tag)
                for i, f in enumerate(allnames):
                    want = wants[f]
                    addr, size = syms[f]
                    ondisk = ondisk_at(addr)
                    site = site_of(ondisk, 0)
                    ncalls = funcs[f][1] if f != "own_call" else 0
                    got = traced.get(f, 0)
                    if mverd is not None and mverd[i] != want and not bad:
                        bad = ("model verdict for %s is %s, reference %s" % (f, mverd[i], want), False, None)
                    if static:
                        # every function but own_call starts (after an optional endbr64 / push;mov) with the compiler's
                        # call into the tracer; -U replaces exactly that call by a NOP, nothing else ever changes
                        cp = site       # offset of the compiler's tracer call inside the function (None: unknown)
                        if mcount_locs:
                            inl = [l - addr for l in mcount_locs if addr <= l < addr + size]
                            cp = inl[0] if len(inl) == 1 else None
                        elif ty == "pg" and ondisk[site:site + 4] == PUSH_MOV:
                            cp = site + 4
                        whole = ondisk_at(addr, max(16, min(size, 256)))
                        instrumented = f != "own_call" and cp is not None and \
                            (whole[cp:cp + 1] == b"\xe8" or whole[cp:cp + 2] == b"\xff\x15")
                        n = 5 if cp is not None and whole[cp:cp + 1] == b"\xe8" else 6
                        expect = instrumented and want != "-"
                        expbytes = ondisk
                        if instrumented and want == "-":
                            # the tracee dumps 16 bytes of each function: a call further in is checked by the trace only
                            expbytes = ondisk[:cp] + (NOP5 if n == 5 else NOP6) + ondisk[cp + n:] if cp + n <= 16 \
                                else funcs[f][2]
                            unpatched_total += 1
                        sigs.add((bname, want, instrumented, ondisk[:4] == ENDBR))
                        if instrumented and want == "-" and got and not bad:
                            bad = ("function %s is selected by -U (last matching option) but was traced %d times (entry bytes %s)"
                                   % (f, got, funcs[f][2][:10].hex()), True,
                                   "endbr" if ondisk[:4] == ENDBR and ty != "pg" else None)
                        if expect and got != ncalls and not bad:
                            bad = ("function %s not selected by -U was called %d times but traced %d times"
                                   % (f, ncalls, got), True, None)
                        if not instrumented and got and not bad:
                            bad = ("function %s has no tracer call but %d records" % (f, got), True, None)
                        if funcs[f][2] != expbytes and not bad:
                            tag = None
                            if f == "own_call" and want == "-":
                                tag = "anycall"
                            elif instrumented and want == "-" and funcs[f][2] == ondisk and ondisk[:4] == ENDBR and ty != "pg":
                                tag = "endbr"
                            bad = ("bytes of %s (verdict %s) after the update: %s, expected %s (on disk %s)"
                                   % (f, want, funcs[f][2].hex(), expbytes.hex(), ondisk.hex()), True, tag)
                        if expect:
                            traced_total += 1
                        if want == "+":
                            pf_lines.append((f, want, "pf %s %d %d %#x 0 %#x %s" % (ty, z, size, funcs[f][0], tramp, ondisk.hex())))
                        continue
                    patchable = ondisk[site:site + 5] in NOPS.values()
                    expect = want == "+" and size >= max(z, 6) and patchable and not prefix
                    sigs.add((bname, want, size >= max(z, 6), expect))
                    if expect and got != ncalls and not bad:
                        bad = ("function %s selected by the last matching option (size %d, -Z %d) was called %d times "
                               "but traced %d times" % (f, size, z, ncalls, got), True, None)
                    if not expect and got and not bad:
                        bad = ("function %s (verdict %s, size %d, -Z %d) must not be traced but has %d records"
                               % (f, want, size, z, got), True, None)
                    if not expect and funcs[f][2] != ondisk and not bad:
                        bad = ("function %s not selected but its bytes changed: %s -> %s"
                               % (f, ondisk.hex(), funcs[f][2].hex()), True, None)
                    if expect:
                        traced_total += 1
                    pf_lines.append((f, want, "pf %s %d %d %#x 0 %#x %s" % (ty, z, size, funcs[f][0], tramp, ondisk.hex())))
                # byte-exact comparison with the model's patcher
                mouts = run_model([l for _, _, l in pf_lines]) if model_ok else []
                for (f, v, l), mo in zip(pf_lines, mouts):
                    mcode = bytes.fromhex(mo.split()[1]) if v == "+" else bytes.fromhex(l.split()[-1])
                    if mcode != funcs[f][2] and not bad:
                        bad = ("bytes of %s after patching differ from the model: %s vs %s"
                               % (f, funcs[f][2].hex(), mcode.hex()), False, None)
                for extra in set(traced) - set(allnames):
                    if not bad:
                        bad = ("unexpected traced function %s" % extra, True, None)
                # W^X on every mapping of the tracee
                for m in maps:
                    if len(m) >= 2 and "w" in m[1] and "x" in m[1] and not bad:
                        bad = ("tracee mapping is writable and executable after patching: %s" % " ".join(m), True, None)
                if ty in PATCH_TYPES and textend[2][:8] != bytes.fromhex("3eff2501000000cc") and not bad:
                    bad = ("no trampoline at the end of the text mapping: %s" % textend[2].hex(), False, None)
                if len(samples) < 4 and (not static or not any(x.get("static") for x in samples)):
                    samples.append({"build": bname, "static": static, "options": opts, "Z": z, "traced": traced,
                                    "called": {f: funcs[f][1] for f in allnames}})
                if bad:
                    rep["stderr"] = rr.stderr[-3000:]
                    rep["report"] = rp.stdout[-1500:]
                    if bad[2]:
                        rep["finding_tag"] = bad[2]
                    failures.append(("e2e", rep, bad[0], bad[1]))
    cov.update({"e2e_runs": runs, "e2e_runs_matching_prefix_model": prefix_hits, "e2e_selected_function_instances": traced_total,
                "e2e_unpatched_function_instances": unpatched_total,
                "e2e_distinct_signatures": len(sigs), "e2e_samples": samples})
    return runs


# ---------------------------------------------------------------- e2e: module naming (shared libraries)
# A shared library has several names: the real file (what /proc/self/maps and the session map show), the links it is
# reached through (the -l link, the SONAME link, a plugin link handed to dlopen) and its DT_SONAME.  `PATTERN@MODULE`
# is documented (match_pattern_module / match_pattern_list) to select a module when MODULE is a prefix of the base
# name of the real file or of the SONAME.  This family installs libraries as real file + links, loads one through
# DT_NEEDED and one through dlopen(), names them by every spelling and compares the traced set with that rule.  It
# needs neither the harness nor the model (the match relation of the few pattern shapes used is evaluated here).
LIB_STEMS = ["qa", "calc", "zed", "plug", "gamma", "hk"]
LIB_VERS = ["1.2", "2.31", "0.9.1", "3.0", "10"]
LIB_FUNCS = ["add", "mul", "run", "aux", "step", "fold"]

LIB_SRC = """#include <stdio.h>
#define NI __attribute__((noinline, noclone))
static unsigned long cnt[%(n)d];
volatile unsigned %(p)s_sink;
%(bodies)s
void %(p)s_dump(void)
{
	static const char *names[] = { %(names)s };
	for (int i = 0; i < %(n)d; i++)
		fprintf(stderr, "CNT %%s %%lu\\n", names[i], cnt[i]);
}
"""

LIBMAIN_SRC = """#include <stdio.h>
#include <stdlib.h>
#include <dlfcn.h>
#define NI __attribute__((noinline, noclone))
static unsigned long cnt[%(n)d];
volatile unsigned m_sink;
%(protos)s
%(bodies)s
int main(int argc, char **argv)
{
	unsigned r = argc;
	unsigned (*fn)(unsigned);
	void (*dump)(void);
	void *h;
	static const char *names[] = { %(names)s };
%(calls)s
	h = dlopen("%(dlpath)s", RTLD_NOW);
	if (!h) { fprintf(stderr, "dlopen: %%s\\n", dlerror()); return 3; }
	fn = (unsigned (*)(unsigned))dlsym(h, "%(dlrun)s");
	dump = (void (*)(void))dlsym(h, "%(dlp)s_dump");
	if (!fn || !dump) return 4;
	for (int i = 0; i < %(dlcalls)d; i++)
		r += fn(r %% 9 + i);
	for (int i = 0; i < %(n)d; i++)
		fprintf(stderr, "CNT %%s %%lu\\n", names[i], cnt[i]);
	%(needp)s_dump();
	dump();
	FILE *f = fopen("/proc/self/maps", "r");
	char l[512];
	while (f && fgets(l, sizeof l, f))
		fprintf(stderr, "MAPS %%s", l);
	if (f) fclose(f);
	printf("result %%u\\n", r);
	return 0;
}
"""


def gen_lib_funcs(rng, p, exported_run=True):
    """functions p_<x> of one module; the last one (p_run) calls the others"""
    fs = rng.sample(LIB_FUNCS[:2] + LIB_FUNCS[3:], rng.randint(2, 4)) + ["run"]
    names = ["%s_%s" % (p, f) for f in fs]
    bodies = []
    for i, f in enumerate(names[:-1]):
        bodies.append("NI unsigned %s(unsigned x)\n{\n\tcnt[%d]++;\n\t%s_sink += x;\n\treturn x * %du + %d;\n}"
                      % (f, i, p, rng.randint(3, 99), rng.randint(1, 9)))
    body = ["NI unsigned %s(unsigned x)\n{\n\tcnt[%d]++;\n\tunsigned s = x;" % (names[-1], len(names) - 1)]
    for f in names[:-1]:
        for _ in range(rng.randint(1, 2)):
            body.append("\ts += %s(s %% %d);" % (f, rng.randint(5, 50)))
    body.append("\treturn s;\n}")
    bodies.append("\n".join(body))
    return names, "\n".join(bodies)


def gen_lib_install(rng, stem):
    """how one library is installed: real file name, SONAME (or None), names of the links (chain link -> … -> real)"""
    ver = rng.choice(LIB_VERS)
    major = ver.split(".")[0]
    style = rng.choice(["old", "old", "modern", "nosoname", "plain-soname"])
    if style == "old":              # glibc before 2.34: libc-2.31.so <- libc.so.6
        real, soname = "lib%s-%s.so" % (stem, ver), "lib%s.so.%s" % (stem, major)
    elif style == "modern":         # libfoo.so.1.2 <- libfoo.so.1 <- libfoo.so
        real, soname = "lib%s.so.%s.7" % (stem, ver), "lib%s.so.%s" % (stem, major)
    elif style == "nosoname":
        real, soname = "lib%s-%s.so" % (stem, ver), None
    else:                           # SONAME is not the name of any file
        real, soname = "lib%s_impl.so" % stem, "lib%s.so" % stem
    return {"real": real, "soname": soname, "devlink": "lib%s.so" % stem, "style": style}


def lib_spellings(rng, inst, link):
    """module spellings a user may write for this library"""
    real, soname = inst["real"], inst["soname"]
    out = [real, real[:-3] if real.endswith(".so") else real.rsplit(".", 1)[0], link, link.split(".so")[0]]
    if soname:
        out += [soname, soname[:-1] + "9"]
    cp = os.path.commonprefix([real, soname or link])
    if len(cp) > 3:
        out.append(cp)
    out += [real[:-1] + "x", real[3:], real[:len(real) // 2 + 2]]
    return [s for s in out if len(s) > 3 and s != "lib"]


def lib_module_selected(module, real, soname):
    return real.startswith(module) or (soname is not None and soname.startswith(module))


def lib_pattern_matches(ptype, patt, name):
    if not any(c in ".?*+-^$|()[]{}" for c in patt):     # init_filter_pattern: no REGEX_CHARS -> strcmp
        return name == patt
    if ptype == "glob":
        import fnmatch
        return fnmatch.fnmatchcase(name, patt)
    return re.search(patt, name) is not None


def gen_lib_case(rng, idx):
    stems = rng.sample(LIB_STEMS, 2)
    need, dl = [gen_lib_install(rng, s) for s in stems]
    if need["style"] == "plain-soname" and rng.random() < 0.5:
        need = gen_lib_install(rng, stems[0])
    # the dlopen()ed one is reached through: its real name, its SONAME link, or a plugin link with an unrelated name
    dl["open_by"] = rng.choice(["real", "soname-link", "plugin-link", "plugin-link"])
    if dl["soname"] is None and dl["open_by"] == "soname-link":
        dl["open_by"] = "plugin-link"
    dl["plugin"] = "%s_plugin.so" % stems[1]
    mods = []
    for p, inst in (("m", None), (stems[0], need), (stems[1], dl)):
        names, bodies = gen_lib_funcs(rng, p)
        mods.append({"prefix": p, "names": names, "bodies": bodies, "inst": inst})
    return {"idx": idx, "mods": mods, "flags": rng.choice([["-O1"], ["-O0"], ["-O1", "-fcf-protection=full"]]),
            "dlcalls": rng.randint(1, 3)}


def gen_lib_options(rng, case, exe_base, rot=None):
    """1-4 ordered -P/-U options with @module spellings; the first one names a library (rot: walk through the
    spellings of the two libraries systematically instead of drawing one)"""
    ptype = rng.choice(["regex", "regex", "glob"])
    mods = case["mods"]
    opts = []
    for k in range(rng.choice([1, 2, 2, 3, 4])):
        mi = rng.choice([0, 1, 1, 2, 2]) if k else rng.choice([1, 2]) if rot is None else 1 + rot % 2
        m = mods[mi]
        if mi == 0:
            module = rng.choice([None, exe_base, exe_base[:4]])
        else:
            inst = m["inst"]
            link = inst["devlink"] if mi == 1 else (inst["plugin"] if inst.get("open_by") == "plugin-link" else inst["devlink"])
            sp = lib_spellings(rng, inst, link)
            module = rng.choice(sp) if k or rot is None else sp[(rot // 2) % len(sp)]
        r = rng.random()
        if r < 0.35:
            patt = rng.choice(m["names"])
        elif ptype == "regex":
            patt = rng.choice([".", "_run$", "_a", "^%s_" % m["prefix"], "_(add|mul|run)$", "^[a-z]+_[a-m]", "u"])
        else:
            patt = rng.choice(["*", "*_run", "*_a*", "%s_*" % m["prefix"], "*_[a-m]*", "?*_???", "*u*"])
        neg = k > 0 and rng.random() < 0.35
        opts.append(("U" if neg else "P", patt if module is None else "%s@%s" % (patt, module)))
    return ptype, opts


def run_e2e_libs(ctx, uft, failures, cov, only=None):
    """failures: (name, replay obj, what, is_monitor)"""
    ncase = 1 if only else 4 if ctx.tier == "quick" else 12
    ncfg = 1 if only else 6 if ctx.tier == "quick" else 10
    wd0 = os.path.join(ctx.scratch, "e2e-libs")
    runs = selected = lib_selected = 0
    sigs = set()
    samples = []
    nfail0 = len(failures)
    for ci in range(ncase):
        case = only["lib_case"] if only else gen_lib_case(ctx.rng, ci)
        wd = os.path.join(wd0, "c%d" % ci)
        os.makedirs(wd, exist_ok=True)
        flags = case["flags"]
        mods = case["mods"]
        exe = os.path.join(wd, "lp%d-main" % ci)
        ok = True
        for m in mods[1:]:
            inst = m["inst"]
            src = os.path.join(wd, m["prefix"] + ".c")
            open(src, "w").write(LIB_SRC % {"n": len(m["names"]), "p": m["prefix"], "bodies": m["bodies"],
                                            "names": ", ".join('"%s"' % f for f in m["names"])})
            cmd = ["gcc", "-w", "-fPIC", "-shared", "-fpatchable-function-entry=5"] + flags + \
                  (["-Wl,-soname," + inst["soname"]] if inst["soname"] else []) + ["-o", os.path.join(wd, inst["real"]), src]
            if C.sh(cmd).returncode != 0:
                ok = False
            links = [inst["devlink"]] + ([inst["soname"]] if inst["soname"] else []) + \
                    ([inst["plugin"]] if inst.get("plugin") else [])
            for l in links:
                p = os.path.join(wd, l)
                if l != inst["real"] and not os.path.lexists(p):
                    os.symlink(inst["real"], p)
        need, dl = mods[1]["inst"], mods[2]["inst"]
        dlfile = {"real": dl["real"], "soname-link": dl["soname"], "plugin-link": dl["plugin"]}[dl["open_by"]]
        m0 = mods[0]
        calls = "\n".join("\tr += %s(r %% 13 + %d);" % (f, i) for i, f in enumerate(m0["names"])) + \
                "\n\tr += %s(r %% 11);" % mods[1]["names"][-1]
        msrc = os.path.join(wd, "main.c")
        open(msrc, "w").write(LIBMAIN_SRC % {
            "n": len(m0["names"]), "protos": "unsigned %s(unsigned);\nvoid %s_dump(void);" % (mods[1]["names"][-1], mods[1]["prefix"]),
            "bodies": m0["bodies"], "names": ", ".join('"%s"' % f for f in m0["names"]), "calls": calls,
            "dlpath": "./" + dlfile, "dlrun": mods[2]["names"][-1], "dlp": mods[2]["prefix"], "dlcalls": case["dlcalls"],
            "needp": mods[1]["prefix"]})
        r = C.sh(["gcc", "-w", "-fpatchable-function-entry=5"] + flags +
                 [msrc, "-o", exe, "-L" + wd, "-l" + mods[1]["prefix"], "-Wl,-rpath,$ORIGIN", "-ldl"])
        if r.returncode != 0 or not ok:
            ctx.notes.append("e2e-libs build failed: %s" % r.stdout[-300:])
            continue
        nrc, nout, nerr, nto = C.run_bounded([exe], 20, cwd=wd)
        if nrc != 0:
            ctx.notes.append("e2e-libs native run failed rc=%d: %s" % (nrc, nerr[-300:]))
            continue
        # what the loader really mapped (the real file names)
        mapped = {os.path.basename(l.split()[-1]) for l in nerr.split("\n") if l.startswith("MAPS ") and "/" in l}
        for m in mods[1:]:
            if m["inst"]["real"] not in mapped:
                ctx.notes.append("e2e-libs: %s not among the mapped files" % m["inst"]["real"])
        exe_base = os.path.basename(exe)
        for ki in range(ncfg):
            if len(failures) - nfail0 >= 3:
                break
            ptype, opts = (only["match"], [tuple(o) for o in only["options"]]) if only else gen_lib_options(ctx.rng, case, exe_base, rot=ci * ncfg + ki)
            data = os.path.join(wd, "d-%d" % ki)
            cmd = ["timeout", "20", uft, "record", "--libmcount-path=" + os.path.join(ctx.src, "libmcount"),
                   "--no-libcall", "--no-event", "--match=" + ptype, "-d", data]
            for o, p in opts:
                cmd += ["-" + o, p]
            cmd.append(exe)
            rc, out, err, to = C.run_bounded(cmd, 30, cwd=wd)
            runs += 1
            for sm in glob.glob(os.path.join(data, "sid-*.map")):
                sid = os.path.basename(sm)[4:-4]
                for shm in glob.glob("/dev/shm/uftrace-%s-*" % sid):
                    try:
                        os.unlink(shm)
                    except OSError:
                        pass
            rep = {"kind": "e2e-libs", "lib_case": case, "match": ptype, "options": opts, "cmd": " ".join(cmd), "cwd": wd,
                   "install": {m["prefix"]: dict(m["inst"]) for m in mods[1:]}, "dlopen_path": "./" + dlfile}
            if to or rc != 0 or out != nout:
                failures.append(("e2e-libs-output", rep, "program output under uftrace differs from native (rc=%d%s): %r vs %r"
                                 % (rc, ", timed out" if to else "", out[-200:], nout[-200:]), True))
                continue
            called = {}
            for l in err.split("\n"):
                t = l.split()
                if l.startswith("CNT ") and len(t) == 3:
                    called[t[1]] = int(t[2])
            rc2, rout, rerr, _ = C.run_bounded(["timeout", "30", uft, "report", "-d", data, "--no-pager", "-f", "call"], 40)
            traced = {}
            for l in rout.split("\n"):
                t = l.split()
                if len(t) == 2 and t[0].isdigit():
                    traced[t[1]] = int(t[0])
            # the property's reference: per module, the last option whose @module selects the module and whose pattern
            # matches the function decides
            items = []
            for o, p in opts:
                patt, _, module = p.partition("@")
                items.append((o == "P", patt, module if "@" in p else exe_base))
            bad = None
            expect_all = {}
            for mi, m in enumerate(mods):
                real = exe_base if mi == 0 else m["inst"]["real"]
                soname = None if mi == 0 else m["inst"]["soname"]
                # the dump helper of a library and main() are patchable functions like the others, called once
                for f in m["names"] + (["main"] if mi == 0 else ["%s_dump" % m["prefix"]]):
                    called.setdefault("main" if mi == 0 else "%s_dump" % m["prefix"], 1)
                    v = "0"
                    for pos, patt, module in items:
                        if lib_module_selected(module, real, soname) and lib_pattern_matches(ptype, patt, f):
                            v = "+" if pos else "-"
                    expect_all[f] = v
                    got, n = traced.get(f, 0), called.get(f)
                    sigs.add((mi, m["inst"]["style"] if mi else "exe", m["inst"].get("open_by") if mi == 2 else None, v))
                    if n is None:
                        bad = bad or "no call counter for %s in the tracee's dump" % f
                    elif v == "+" and got != n:
                        bad = bad or ("function %s of %s (SONAME %s%s) is selected by the last matching option but was called %d "
                                      "times and traced %d times" % (f, real, soname, ", dlopen(./%s)" % dlfile if mi == 2 else "",
                                                                     n, got))
                    elif v != "+" and got:
                        bad = bad or ("function %s of %s (SONAME %s) is not selected (verdict %s) but has %d records"
                                      % (f, real, soname, v, got))
                    if v == "+":
                        selected += 1
                        lib_selected += mi > 0
            for extra in sorted(set(traced) - set(expect_all)):
                bad = bad or "unexpected traced function %s" % extra
            for l in err.split("\n"):
                t = l.split()
                if l.startswith("MAPS ") and len(t) >= 3 and "w" in t[2] and "x" in t[2]:
                    bad = bad or "tracee mapping is writable and executable after patching: %s" % " ".join(t[1:])
            if len(samples) < 3:
                samples.append({"install": rep["install"], "dlopen": dlfile, "options": opts, "match": ptype,
                                "expected": expect_all, "traced": traced})
            if bad:
                rep["expected"] = expect_all
                rep["traced"] = traced
                rep["called"] = called
                rep["report"] = rout[-1500:]
                failures.append(("e2e-libs", rep, bad, True))
    cov.update({"e2e_lib_runs": runs, "e2e_lib_selected_function_instances": selected,
                "e2e_lib_selected_in_libraries": lib_selected, "e2e_lib_distinct_signatures": len(sigs),
                "e2e_lib_samples": samples})
    return runs


# ---------------------------------------------------------------- driver
COMBOS =[(1, 1), (1, 0), (0, 1), (0, 0)]     # model variants `fixed <unpatch_func> <unpatch_fentry_func>`, repaired first
FINDINGS = {
    "anycall": {
        "id": "C14-UNPATCH-ANY-CALL", "witness": "c14_prefix_unpatch_anycall_witness",
        "fix": "proposed_fixes/C14-UNPATCH-ANY-CALL.diff", "flag": "fixed 0 _",
        "what": "unpatch_func() turns any `e8` / `ff 15` at the entry of a function selected by -U into a NOP without looking "
                "at the call target: a function whose first instruction is a call of its own (no_instrument_function, "
                "object built without -pg) loses that call and the program computes something else",
        "repro": "gcc -O2 -pg -mfentry -fcf-protection=none: `NINI int wrapper(int x){return leaf(x)+1;}`; "
                 "uftrace record -U wrapper ./a.out prints a different result than ./a.out"},
    "endbr": {
        "id": "C14-UNPATCH-ENDBR", "witness": "c14_prefix_unpatch_endbr_witness",
        "fix": "proposed_fixes/C14-UNPATCH-ENDBR.diff", "flag": "fixed _ 0",
        "what": "unpatch_fentry_func() looks at the first byte of the symbol, which is endbr64 in -fcf-protection builds: "
                "a function selected by -U (last match) in a -pg -mfentry binary keeps its call into the tracer and is still traced",
        "repro": "gcc -pg -mfentry -fcf-protection=full prog.c; uftrace record -U leaf ./a.out; uftrace report still lists leaf"},
}


def finding_entry(fid, witness):
    """the entry of known_findings.json for this finding (any status), or None while the coordinator has not recorded it"""
    try:
        kf = json.load(open(os.path.join(C.VERIF, "known_findings.json")))
    except (OSError, ValueError):
        return None
    for f in kf.get("findings", []):
        if f.get("property") == "C14" and (f.get("id") == fid or witness in f.get("witness_theorems", [])):
            return f
    return None


def report_findings(ctx, present, finding_hits, combo, combo_dis):
    """A finding is *present* when the tree behaves like the pre-fix model variant (or, without a model, when the
    monitors see cases of its shape).  open entry -> KNOWN-FINDING; fixed entry -> the fix has regressed: VIOLATION with
    a concrete failing input; no entry yet -> reported as pending (the patch is in proposed_fixes/), exit status 0."""
    for tag in sorted(FINDINGS):
        F = FINDINGS[tag]
        hits = finding_hits.get(tag, [])
        if tag not in present or (not hits and not combo_dis):
            continue
        what = "%s %s (implementation matches the pre-fix model `%s`, witness %s; %d generated case(s) of this shape violate " \
               "the property on the implementation; repair: %s)" % (F["id"], F["what"], F["flag"], F["witness"], len(hits), F["fix"])
        ent = finding_entry(F["id"], F["witness"])
        if ent is not None and ent.get("status") == "open":
            C.known(ctx, ent, what)
        elif ent is not None:
            # recorded as fixed: the repair is gone
            if hits:
                name, rep, msg = hits[0]
                C.violation(ctx, "regression-%s-%s" % (F["id"], name), dict(rep, what=msg, regression_of=ent.get("commit")))
            else:
                C.violation(ctx, "regression-%s" % F["id"],
                            {"kind": "model-code-disagreement", "what": what, "theorem": F["witness"],
                             "model_variant_disagreements": {"fixed %d %d" % cb: n for cb, n in combo_dis.items()}}, True)
        else:
            msg = "PENDING-FINDING: property=C14 %s [not yet recorded in known_findings.json]" % what
            ctx.notes.append(msg)
            ctx.coverage.setdefault("pending_findings", []).append(
                {"id": F["id"], "witness": F["witness"], "proposed_fix": F["fix"], "reproduction": F["repro"],
                 "cases": len(hits), "e2e_cases": sum(1 for h in hits if h[1].get("cmd")),
                 "example": (hits[0][1].get("harness_case") or hits[0][1].get("cmd")) if hits else None,
                 "example_what": hits[0][2][:500] if hits else None,
                 "e2e_example": next(({"cmd": h[1]["cmd"], "build": h[1].get("flags"), "what": h[2][:500]}
                                      for h in hits if h[1].get("cmd")), None)})
            print(msg)


def build_harness(ctx):
    exe = os.path.join(ctx.scratch, "h_c14")
    s = ctx.src
    srcs = [os.path.join(C.VERIF, "harness/c14_patch.c"), os.path.join(C.VERIF, "harness/c14_stubs.c")] + \
        [os.path.join(s, f) for f in (
            "arch/x86_64/mcount-dynamic.c", "arch/x86_64/mcount-insn.c", "utils/utils.c", "utils/debug.c",
            "utils/hashmap.c", "utils/symbol.c", "utils/symbol-libelf.c", "utils/symbol-rawelf.c",
            "arch/x86_64/symbol.c", "utils/filter.c", "utils/rbtree.c", "utils/demangle.c")] + ["-lelf"]
    ok, log = ctx.cc(exe, srcs, extra=["-DHAVE_LIBELF", "-DLIBMCOUNT"])
    return exe, ok, log


def desc_of_uf_line(line):
    """description of a corpus `uf` line (so that the monitor evaluates it like a generated one)"""
    t = line.split()
    d = {"kind": "uf", "corpus": True, "ty": t[1], "addr": int(t[2], 0), "size": int(t[3], 0), "loc": t[4],
         "prologue": "corpus"}
    if len(t) > 6:
        d["textsize"] = int(t[6], 0)
        d["tramp"] = None if t[7] == "~" else int(t[7], 0)
        ngot = int(t[8])
        d["got"] = [(int(t[9 + 2 * i], 0), int(t[10 + 2 * i])) for i in range(ngot)]
        k = 9 + 2 * ngot
        nplt = int(t[k])
        d["plt"] = [(unhx(t[k + 1 + 3 * i]).decode(), int(t[k + 2 + 3 * i], 0), int(t[k + 3 + 3 * i], 0)) for i in range(nplt)]
    return d


def corpus_lines():
    d = os.path.join(C.VERIF, "corpus", "C14")
    out = []
    if os.path.isdir(d):
        for f in sorted(os.listdir(d)):
            for l in open(os.path.join(d, f)):
                l = l.strip()
                if l and not l.startswith("#"):
                    out.append(l)
    return out


def run(ctx):
    ctx.snapshot()
    # byte tables of the snapshot -> Lean
    tr = C.sh([sys.executable, os.path.join(C.VERIF, "translators/c14_tables.py"), ctx.src])
    if tr.returncode != 0:
        C.violation(ctx, "translator", {"kind": "table-translator-failed", "log": tr.stdout[-2000:]}, True)
        return C.finish(ctx)
    ok, problems = C.prove(ctx, "C14")
    model_ok = ok
    if not ok:
        # keep going without the model: the monitors may still find a concrete failing input
        C.violation(ctx, "proof", {"kind": "proof-obligation-broken", "problems": problems,
                                   "hint": "Uft/Gen/PatchTables.lean is regenerated from the checked tree; a changed "
                                           "byte table breaks the table lemmas"}, True)

    t_prove = ctx.elapsed()
    hexe, okc, log = build_harness(ctx)
    if not okc:
        C.violation(ctx, "build", {"kind": "harness-build-failed", "log": log[-3000:]}, True)
        # the harness calls static functions of libmcount/dynamic.c; a tree that renames them cannot be driven through
        # it, but the end-to-end family that needs neither harness nor model still looks for a concrete failing input
        okm, mlog = ctx.make()
        uft = os.path.join(ctx.src, "uftrace")
        cov, fails = {}, []
        if not okm or not os.path.exists(uft):
            C.violation(ctx, "make", {"kind": "uftrace-build-failed", "log": mlog[-3000:]}, True)
        else:
            runs = run_e2e_libs(ctx, uft, fails, cov)
            for k, (name, rep, what, is_mon) in enumerate(fails[:3]):
                C.violation(ctx, "%s-%d" % (name, k), dict(rep, what=what, kind="property-violated-on-implementation"),
                            no_failing_input=not is_mon)
            ctx.coverage.update({"evaluations": runs, "distinct_nontrivial": cov.get("e2e_lib_distinct_signatures", 0),
                                 "rule": "harness did not build against this tree: only the e2e module-naming family ran",
                                 "samples": cov.get("e2e_lib_samples", [])[:2], "exhaustive": False})
            ctx.coverage.update(cov)
        return C.finish(ctx)

    quick = ctx.tier == "quick"
    cases = []   # (harness line, desc)
    for l in corpus_lines():
        cases.append((l, desc_of_uf_line(l) if l.split()[0] == "uf" else {"kind": l.split()[0], "corpus": True}))
    ncorpus = len(cases)
    for _ in range(400 if quick else 6000):
        cases.append(gen_pl(ctx.rng))
    for _ in range(1500 if quick else 30000):
        cases.append(gen_pf(ctx.rng))
    for _ in range(300 if quick else 5000):
        cases.append(gen_uf(ctx.rng))
    for _ in range(120 if quick else 1500):
        l, d, _m = gen_flow(ctx.rng)
        cases.append((l, d))

    r = subprocess.run([hexe], input="\n".join(c[0] for c in cases) + "\n", stdout=subprocess.PIPE,
                       stderr=subprocess.PIPE, text=True, timeout=1500)
    lines = r.stdout.split("\n")
    models = [l[6:] for l in lines if l.startswith("MODEL ")]
    impls = [l[5:] for l in lines if l.startswith("IMPL ")]
    if r.returncode != 0 or len(models) != len(cases) or len(impls) != len(cases):
        k = min(len(models), len(impls))
        C.violation(ctx, "harness", {"kind": "harness-failed", "rc": r.returncode, "stderr": r.stderr[-2000:],
                                     "protocol_errors": [l for l in lines if l.startswith("ERROR")][:5],
                                     "cases": len(cases), "got": [len(models), len(impls)],
                                     "next_case": cases[k][0][:2000] if k < len(cases) else None}, True)
        return C.finish(ctx)
    t_harness = ctx.elapsed()
    # the model of the unpatch path has two pre-fix flags; find the variant this tree behaves like
    uf_idx = [i for i, (_l, d) in enumerate(cases) if d["kind"] in ("uf", "flow")]
    combo, combo_dis = (1, 1), {}
    if model_ok:
        mout = run_model(["fixed 1 1"] + models)[1:]
        alt = {(1, 1): {i: mout[i] for i in uf_idx}}
        for cb in COMBOS[1:]:
            alt[cb] = dict(zip(uf_idx, run_model(["fixed %d %d" % cb] + [models[i] for i in uf_idx])[1:]))
        combo_dis = {cb: sum(1 for i in uf_idx if C.norm(impls[i]) != C.norm(alt[cb][i])) for cb in COMBOS}
        combo = min(COMBOS, key=lambda cb: (combo_dis[cb], COMBOS.index(cb)))
        for i in uf_idx:
            mout[i] = alt[combo][i]
        present = {t for t, bit in (("anycall", combo[0]), ("endbr", combo[1])) if not bit}
    else:
        mout = list(impls)
        present = set(FINDINGS)      # cannot be told without the model
    t_model = ctx.elapsed()

    failures = []   # (name, replay obj, what, is_monitor)
    finding_hits = {t: [] for t in FINDINGS}    # tag -> [(name, replay obj, what)]
    disagree = monitor_fail = 0
    distinct = set()
    kinds = {}
    outcomes = {}
    for i, (line, desc) in enumerate(cases):
        mi, mm = C.norm(impls[i]), C.norm(mout[i])
        kind = desc["kind"]
        kinds[kind] = kinds.get(kind, 0) + 1
        if kind in ("pf", "uf"):
            sig = (kind, desc.get("ty"), desc.get("prologue"), mi.split()[0],
                   desc.get("symsize", 0) >= max(desc.get("minsize", 0), 6))
            outcomes[mi.split()[0]] = outcomes.get(mi.split()[0], 0) + 1
        elif kind == "pl":
            sig = (kind, mi.split("|")[1].strip(), len(desc.get("items", [])), desc.get("ptype"))
        else:
            sig = (kind, zlib.crc32(mi.encode()))
        distinct.add(sig)
        res = []
        if not desc.get("corpus") or kind == "uf":
            try:
                res = MONITORS[kind](desc, models[i], mi)
            except Exception as e:  # malformed implementation output
                res = "monitor could not parse implementation output: %r" % (e,)
        if isinstance(res, str):
            res = [(None, res)]
        res = res or []
        unexplained = [m for t, m in res if t not in present]
        obj = {"what": "; ".join(m for _t, m in res)[:3000] or None, "harness_case": line[:20000], "desc": desc,
               "model_input": models[i][:20000], "impl_output": mi[:20000], "model_output": mm[:20000],
               "model_variant": "fixed %d %d" % combo, "theorem": THEOREM.get(kind)}
        for t in sorted({t for t, _m in res if t in present}):
            finding_hits[t].append(("case%d" % i, dict(obj, kind="property-violated-on-implementation", finding=FINDINGS[t]["id"]),
                                    "; ".join(m for tt, m in res if tt == t)))
        if mi != mm:
            disagree += 1
        if unexplained:
            monitor_fail += 1
        if unexplained or mi != mm:
            obj["kind"] = "property-violated-on-implementation" if unexplained else "model-code-disagreement"
            obj["what"] = "; ".join(unexplained)[:3000] or None
            failures.append(("case%d" % i, obj, obj["what"], bool(unexplained)))

    # H5
    cov = {}
    t_h4 = ctx.elapsed()
    okm, mlog = ctx.make()
    t_make = ctx.elapsed()
    uft = os.path.join(ctx.src, "uftrace")
    e2e_runs = 0
    if not okm or not os.path.exists(uft):
        C.violation(ctx, "make", {"kind": "uftrace-build-failed", "log": mlog[-3000:]}, True)
    else:
        e2e_fail = []
        e2e_runs = run_e2e(ctx, hexe, uft, e2e_fail, cov, model_ok, present=present)
        for name, rep, what, is_mon in e2e_fail:
            rep = dict(rep)
            rep["what"] = what
            rep["kind"] = "property-violated-on-implementation" if is_mon else "model-code-disagreement"
            tag = rep.get("finding_tag")
            if tag in present:
                rep["finding"] = FINDINGS[tag]["id"]
                finding_hits[tag].append((name + "-%d" % len(finding_hits[tag]), rep, what))
                continue
            failures.append((name + "-%d" % len(failures), rep, what, is_mon))
            if is_mon:
                monitor_fail += 1
            else:
                disagree += 1
        # module naming: libraries installed as real file + links (+ SONAME), DT_NEEDED and dlopen()ed
        lib_fail = []
        e2e_runs += run_e2e_libs(ctx, uft, lib_fail, cov)
        for name, rep, what, is_mon in lib_fail:
            failures.append((name + "-%d" % len(failures), dict(rep, what=what, kind="property-violated-on-implementation"),
                             what, is_mon))
            monitor_fail += 1

    # genuine defects of the unpatch path that this tree still has (implementation = pre-fix model)
    report_findings(ctx, present, finding_hits, combo, combo_dis)

    # report monitor failures first, at most 3 replays
    failures.sort(key=lambda f: not f[3])
    for name, rep, what, is_mon in failures[:3]:
        C.violation(ctx, name, rep, no_failing_input=not is_mon)

    samples = []
    for k in ("pl", "pf", "uf"):
        for i, (line, desc) in enumerate(cases):
            if desc["kind"] == k and not desc.get("corpus"):
                samples.append({"model_input": models[i][:300], "impl": impls[i][:300], "model": mout[i][:300]})
                break
    ctx.coverage.update({
        "evaluations": len(cases) + e2e_runs,
        "distinct_nontrivial": len(distinct) + cov.get("e2e_distinct_signatures", 0) + cov.get("e2e_lib_distinct_signatures", 0),
        "rule": "pl: random ordered -P/-U lists (0-8 items; simple/regex/glob; optional @module incl. prefix, empty and "
                "'@'-containing modules; '!'-prefixed names) x 1-8 symbol names x libname/soname; "
                "pf: (module type x min size x symbol size x prologue kind {4 NOP patterns, endbr64+NOP, one-bit near "
                "misses, call, endbr64+call, call *GOT, damaged endbr64, double endbr64, truncated, push rbp, random} x "
                "trampoline {end of page, +-2^31, exactly next insn, beyond 2^31, absolute}); uf: module images with 0-3 PLT "
                "symbols (named __fentry__/mcount/_mcount/others) and GOT slots holding &__fentry__/&mcount/another address; "
                "entry = [endbr64] [push;mov] + {call PLT entry (start, inside, one past), call trampoline (+-1, inside/outside "
                "the code segment, absent), call elsewhere, call *GOT (slot outside/inside/straddling the code segment, at / "
                "beyond / before the mapping), ff 14/25/d0, random} or the pf prologues x types x __mcount_loc hit/miss/outside "
                "the symbol; flow: 1-3 fake modules (1-2 text pages, with/without room for the trampoline, PLT symbols, GOT "
                "slots before / behind the code segment, statically instrumented functions, mprotect fault injection) through "
                "the real do_dynamic_update + freeze_dynamic_update; e2e: generated C programs x gcc flag sets (patchable, "
                "nop-mcount, -pg -mfentry PIE/no-PIE x CET, -pg -mrecord-mcount; an uninstrumented function that begins with "
                "its own call) x random ordered -P/-U/-Z under uftrace record; e2e-libs: executable + a DT_NEEDED library + a "
                "dlopen()ed library, each installed as real file + links in one of four naming styles (libx-1.2.so <- libx.so.1, "
                "libx.so.1.2.7 <- libx.so.1, no SONAME, SONAME naming no file; dlopen by real name / SONAME link / unrelated "
                "plugin link) x 1-4 ordered -P/-U PATTERN@MODULE with MODULE spelled as real name, real name without suffix, "
                "link name, SONAME, common prefix and near misses; expectation = prefix of the real base name or of the SONAME. "
                "distinct = distinct (kind, type, prologue kind, return code, size-rule side) / verdict vectors / outputs",
        "cases_by_kind": kinds, "corpus_cases": ncorpus, "patch_return_codes": outcomes,
        "model_code_disagreements": disagree, "monitor_failures_on_impl": monitor_fail,
        "unpatch_model_variant": "fixed %d %d" % combo,
        "unpatch_model_variant_disagreements": {"fixed %d %d" % cb: n for cb, n in combo_dis.items()},
        "finding_shaped_cases": {FINDINGS[t]["id"]: len(v) for t, v in finding_hits.items()},
        "exhaustive": False, "samples": samples,
    })
    ctx.coverage.update(cov)
    ctx.coverage["stage_seconds"] = {"translate+prove": round(t_prove, 1), "harness": round(t_harness - t_prove, 1),
                                     "model": round(t_model - t_harness, 1), "monitors": round(t_h4 - t_model, 1),
                                     "make": round(t_make - t_h4, 1), "e2e": round(ctx.elapsed() - t_make, 1)}
    ctx.assumptions += [
        "regex/glob/strcmp matching (regexec, fnmatch) is an uninterpreted relation supplied by the real engines",
        "mprotect/mmap behave as documented on mapped pages; the only injected failure is the RWX request of setup",
        "no capstone, no xray: DYNAMIC_NONE fails without writing, DYNAMIC_XRAY is not modelled",
        "symbol tables are sorted and non-overlapping (find_sym's bsearch = first containing symbol)",
        "single-threaded patching before main(); instruction-cache coherence not modelled",
    ]
    return C.finish(ctx)


def replay(ctx, path):
    r = json.load(open(path))
    print(json.dumps({k: v for k, v in r.items() if k not in ("source", "stderr")}, indent=1)[:6000])
    ctx.snapshot()
    if r.get("lib_case"):
        okm, mlog = ctx.make()
        if not okm:
            print(mlog[-2000:])
            return 2
        fails, cov = [], {}
        run_e2e_libs(ctx, os.path.join(ctx.src, "uftrace"), fails, cov, only=r)
        for name, rep, what, is_mon in fails:
            print("STILL FAILING (property): %s" % what)
        if not fails:
            print("no failure on this tree")
        return 1 if fails else 0
    hexe, okc, log = build_harness(ctx)
    if not okc:
        print(log)
        return 2
    if r.get("source") and r.get("names"):
        # end-to-end case: rebuild the program, run it under the snapshot's uftrace again
        okm, mlog = ctx.make()
        if not okm:
            print(mlog[-2000:])
            return 2
        fails, cov = [], {}
        run_e2e(ctx, hexe, os.path.join(ctx.src, "uftrace"), fails, cov, True, only=r)
        for name, rep, what, is_mon in fails:
            print("STILL FAILING (%s): %s" % ("property" if is_mon else "model/code", what))
        if not fails:
            print("no failure on this tree")
        return 1 if fails else 0
    case = r.get("harness_case")
    if not case:
        return 0
    p = subprocess.run([hexe], input=case + "\n", stdout=subprocess.PIPE, stderr=subprocess.PIPE, text=True)
    lines = p.stdout.split("\n")
    m = [l[6:] for l in lines if l.startswith("MODEL ")]
    im = [l[5:] for l in lines if l.startswith("IMPL ")]
    if not m or not im:
        print("harness failed:", p.stderr[-500:])
        return 2
    # the model variant the replay was written against (unpatch path), and the repaired code
    variant = r.get("model_variant", "fixed 1 1")
    mo = run_model([variant, m[0]])[1:]
    print("impl :", im[0][:500])
    print("model (%s):" % variant, mo[0][:500])
    if variant != "fixed 1 1":
        print("model (fixed 1 1):", run_model(["fixed 1 1", m[0]])[1][:500])
    bad = None
    d = r.get("desc")
    if d and d.get("kind") in MONITORS and (not d.get("corpus") or d.get("kind") == "uf"):
        try:
            bad = MONITORS[d["kind"]](d, m[0], C.norm(im[0]))
        except Exception as e:
            bad = "monitor could not parse implementation output: %r" % (e,)
        if isinstance(bad, list):
            bad = "; ".join("%s%s" % ("[%s] " % FINDINGS[t]["id"] if t else "", msg) for t, msg in bad)
        print("monitor:", bad or "ok")
    return 0 if (C.norm(im[0]) == C.norm(mo[0]) and not bad) else 1
