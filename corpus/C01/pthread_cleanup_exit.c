#include <pthread.h>
#include <stdio.h>
__attribute__((noinline)) void cleanup(void *a) { printf("cleanup %s\n", (char*)a); }
__attribute__((noinline)) void *tmain(void *a) {
  pthread_cleanup_push(cleanup, "c"); pthread_exit((void*)42); pthread_cleanup_pop(1);
  return (void*)7;
}
int main(void) { pthread_t t; void *res = (void*)-1; int rc; pthread_create(&t, NULL, tmain, NULL); rc = pthread_join(t, &res); printf("rc %d res %ld\n", rc, (long)res); return 0; }
