#include <setjmp.h>
void lib_bail(jmp_buf jb, int v) { longjmp(jb, v); }
void lib_call(void (*cb)(int), int v) { cb(v); }
