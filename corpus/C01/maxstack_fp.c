#include <stdio.h>
#include <math.h>
#define NI __attribute__((noinline))
NI double leaf(double a, int c) { return a * 2.5 + c; }
NI double rec(int n, double acc) { volatile double a = acc + n * 0.5; if (n <= 0) return leaf(a, 1); return rec(n - 1, a) + sin(a); }
int main(void) { for (int r = 0; r < 3; r++) printf("%.6f\n", rec(6, r * 0.25)); return 0; }
