/* pending stdout data at abort(): lost natively, written (plus a 'Please report this bug' line) under uftrace */
#include <stdio.h>
#include <stdlib.h>
int main(void)
{
	static char buf[4096];
	setvbuf(stdout, buf, _IOFBF, sizeof(buf));
	printf("still in the buffer\n");
	abort();
}
