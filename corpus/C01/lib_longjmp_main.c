#include <setjmp.h>
#include <stdio.h>
#define NI __attribute__((noinline))
void lib_bail(jmp_buf jb, int v);
void lib_call(void (*cb)(int), int v);
static jmp_buf jb;
NI static void cb(int v) { if (v & 1) lib_bail(jb, v); }
NI static int guarded(int v) { if (setjmp(jb)) return -1; lib_call(cb, v); return 0; }
int main(void) { for (int i = 0; i < 6; i++) printf("guarded(%d) -> %d\n", i, guarded(i)); return 0; }
