/* -T leaf@read=proc/statm on a -pg -mfentry / -fpatchable-function-entry build: the FP argument is clobbered */
#include <stdio.h>
__attribute__((noinline)) double leaf(double a, int c) { return a * 2.5 + c; }
int main(void)
{
	double s = 0;
	for (int i = 0; i < 5; i++)
		s += leaf(i + 0.5, i);
	printf("%.3f\n", s);
	return 0;
}
