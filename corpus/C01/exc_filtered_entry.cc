#include <cstdio>
#include <cstdlib>
#include <string>
#include <pthread.h>
#define NI __attribute__((noinline))
struct P { int c; double v; };
#ifdef STRLOG
static thread_local std::string *lg;
#define LOG(fmt, x) do { char b[64]; snprintf(b, 64, fmt, x); *lg += b; } while (0)
#else
#define LOG(fmt, x) printf(fmt "\n", x)
#endif
struct G { int id; NI G(int i) : id(i) {} NI ~G() { LOG("~G %d", id); } };
NI static void thrower(int v) { G g(3); throw v; }
NI static long leave(int v) {
  G g(2);
  try { thrower(v); } catch (int i) { LOG("inner caught %d", i); }
#ifdef PAYLOAD
  throw P{1, 2.5};
#else
  throw 2.5;
#endif
}
NI static long lvl(int d, int v) { volatile double loc = d; long x; if (d <= 0) x = leave(v); else x = lvl(d - 1, v) + 1; loc += 1; return x; }
NI static void *tmain(void *a) {
  long r = -1;
#ifdef STRLOG
  std::string s; lg = &s;
#endif
  try { G g(1); r = lvl((long)a, 7); }
#ifdef PAYLOAD
  catch (const P &p) { LOG("outer caught %d", p.c); r = 5; }
#else
  catch (double d) { LOG("outer caught %.1f", d); r = 5; }
#endif
#ifdef STRLOG
  printf("%s\n", s.c_str());
#endif
  return (void *)r;
}
int main(int argc, char **argv) {
  void *res; int n = atoi(argv[1]); pthread_t t[8]; if (n == 0) res = tmain((void *)(long)atoi(argv[2]));
  for (long i = 0; i < n; i++) pthread_create(&t[i], NULL, tmain, (void *)(i % 4));
  for (int i = 0; i < n; i++) pthread_join(t[i], &res);
  printf("res %ld\n", (long)res);
  return 0;
}
