/* backtrace() returns one frame more under uftrace: libmcount's wrapper itself */
#include <execinfo.h>
#include <stdio.h>
int main(void)
{
	void *buf[32];
	printf("%d frames\n", backtrace(buf, 32));
	return 0;
}
