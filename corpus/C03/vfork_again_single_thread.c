/*
 * Finding F-C03-VFORK-AGAIN, minimal single-threaded witness (corpus/C03; not run by the check, the check's probe is the
 * two-thread program RACE_SRC of checks/c03.py with arguments `0 2 <n>`).
 *   gcc -pg -O0 -o va vfork_again_single_thread.c
 *   uftrace record ./va 2 ; uftrace report -f call
 * unchanged tree: a() and b() are not in the trace at all (200 calls dropped, no LOST), task.txt has a line
 *   FORK pid=<the program itself> ppid=<uftrace record>
 * with proposed_fixes/C03-VFORK-AGAIN.diff: a 100, b 100, c 100.
 */
/* single-threaded: main is not instrumented, vfork twice (child _exit), traced calls before/between/after */
#include <stdio.h>
#include <stdlib.h>
#include <sys/wait.h>
#include <unistd.h>
volatile int sink;
__attribute__((noinline)) void a(void) { sink++; }
__attribute__((noinline)) void b(void) { sink++; }
__attribute__((noinline)) void c(void) { sink++; }
__attribute__((no_instrument_function)) int main(int argc, char **argv)
{
	int n = argc > 1 ? atoi(argv[1]) : 2;
	for (int i = 0; i < 100; i++) a();
	for (int k = 0; k < n; k++) {
		pid_t pid = vfork();
		if (pid == 0) _exit(0);
		waitpid(pid, 0, 0);
		for (int i = 0; i < 100; i++) { if (k == 0) b(); else c(); }
	}
	return 0;
}
