"""H1: build and run the in-process libmcount harness (see harness/h1_driver.c)."""
import glob
import os
import re
import shlex
import struct
import subprocess
from concurrent.futures import ThreadPoolExecutor

from lib import common as C

UTILS = ["debug", "regs", "rbtree", "filter", "demangle", "utils", "script", "script-python",
         "script-luajit", "auto-args", "dwarf", "hashmap", "argspec", "tracefs", "socket", "shmem"]

FALLBACK_FLAGS = ("-std=gnu11 -D_GNU_SOURCE -O2 -g -DDEBUG_MODE=0 -DHAVE_LIBELF -DHAVE_LIBDW "
                  "-D_DEFAULT_SOURCE -D_XOPEN_SOURCE=600 -fPIC -fvisibility=hidden -fno-omit-frame-pointer "
                  "-fno-builtin -fno-tree-vectorize -DLIBMCOUNT -mgeneral-regs-only -minline-all-stringops").split()


def lib_flags(ctx):
    """The flags /repo's own Makefile uses for libmcount objects (so that a Makefile change is seen)."""
    r = C.sh(["make", "-C", ctx.src, "-n", "-W", "libmcount/mcount.c", "V=1"])
    for line in r.stdout.split("\n"):
        if "libmcount/mcount.c" in line and " -c " in line and "mcount.op" in line:
            toks = shlex.split(line)
            out = []
            skip = False
            for t in toks[1:]:
                if skip:
                    skip = False
                    continue
                if t in ("-c",):
                    continue
                if t == "-o":
                    skip = True
                    continue
                if t.endswith("libmcount/mcount.c"):
                    continue
                if t.startswith("-W") and t != "-Wno-error":
                    continue
                out.append(t)
            return out, True
    return FALLBACK_FLAGS + ["-iquote", ctx.src, "-iquote", os.path.join(ctx.src, "arch/x86_64")], False


def build(ctx, variant="normal", extra_cflags=(), driver="h1_driver.c", out="h1"):
    """Returns (exe path or None, log)."""
    ctx.snapshot()
    src = ctx.src
    if not os.path.exists(os.path.join(src, "version.h")):
        # generated header; absent when /repo has no build products (e.g. after `make clean`)
        C.sh(["make", "-C", src, "-s", "version.h"])
        if not os.path.exists(os.path.join(src, "version.h")):
            C.sh(["make", "-C", src, "-s", os.path.join(src, "version.h")])
    flags, from_make = lib_flags(ctx)
    vflags = {"normal": [], "fast": ["-DDISABLE_MCOUNT_FILTER"], "single": ["-DSINGLE_THREAD"],
              "fast-single": ["-DDISABLE_MCOUNT_FILTER", "-DSINGLE_THREAD"]}[variant]
    flags = flags + vflags + ["-w", "-D" + C.GUARD] + list(extra_cflags)
    objdir = os.path.join(ctx.scratch, "h1obj-" + variant + ("-" + out if out != "h1" else ""))
    os.makedirs(objdir, exist_ok=True)
    srcs = [f for f in glob.glob(os.path.join(src, "libmcount/*.c")) if not f.endswith("-nop.c")]
    srcs += [os.path.join(src, "utils", u + ".c") for u in UTILS]
    srcs += glob.glob(os.path.join(src, "utils/symbol*.c"))
    srcs += glob.glob(os.path.join(src, "arch/x86_64/mcount-*.c")) + [os.path.join(src, "arch/x86_64/symbol.c")]
    srcs += glob.glob(os.path.join(src, "arch/x86_64/*.S"))
    hdir = os.path.join(C.VERIF, "harness")
    drv = [os.path.join(hdir, driver), os.path.join(hdir, "h1_funcs_b.c")]
    jobs = []
    for s in srcs:
        o = os.path.join(objdir, os.path.relpath(s, src).replace("/", "_") + ".o")
        jobs.append((["gcc"] + flags + ["-c", s, "-o", o], o))
    for s in drv:
        o = os.path.join(objdir, "drv_" + os.path.basename(s) + ".o")
        # driver: normal C, can see the library's internal headers; own debug info for -L
        dflags = [f for f in flags if f not in ("-fvisibility=hidden", "-mgeneral-regs-only", "-fno-builtin")]
        jobs.append((["gcc"] + dflags + ["-O0", "-c", s, "-o", o], o))
    logs = []

    def run(j):
        r = C.sh(j[0])
        return r.returncode, r.stdout

    with ThreadPoolExecutor(16) as ex:
        res = list(ex.map(run, jobs))
    bad = [(j, r) for j, r in zip(jobs, res) if r[0] != 0]
    if bad:
        return None, "\n".join(" ".join(j[0][-3:]) + "\n" + r[1][-800:] for j, r in bad[:5])
    exe = os.path.join(ctx.scratch, out + "-" + variant)
    r = C.sh(["gcc", "-o", exe] + [j[1] for j in jobs] +
             ["-ldl", "-pthread", "-lrt", "-lelf", "-ldw", "-lstdc++", "-no-pie"])
    if r.returncode != 0:
        r = C.sh(["gcc", "-o", exe] + [j[1] for j in jobs] + ["-ldl", "-pthread", "-lrt", "-lelf", "-ldw", "-lstdc++"])
        if r.returncode != 0:
            return None, r.stdout[-3000:]
    ctx.notes.append("H1 %s built with flags from %s" % (variant, "make -n" if from_make else "fallback list"))
    return exe, ""


MSG_NAMES = {1: "REC_START", 2: "REC_END", 3: "TASK_START", 4: "TASK_END", 5: "FORK_START", 6: "FORK_END",
             7: "SESSION", 8: "LOST", 9: "DLOPEN", 10: "FINISH"}


def run(ctx, exe, env, script_lines, idx=0, timeout=60):
    """Run one script in a fresh process. Returns dict(lines=[...], msgs=[(type,payload)], rc, stderr)."""
    d = os.path.join(ctx.scratch, "h1run-%d-%d" % (os.getpid(), idx))
    os.makedirs(d, exist_ok=True)
    fifo = os.path.join(d, ".channel")
    if os.path.exists(fifo):
        os.unlink(fifo)
    os.mkfifo(fifo)
    rfd = os.open(fifo, os.O_RDONLY | os.O_NONBLOCK)
    e = {"PATH": os.environ.get("PATH", "/usr/bin:/bin"), "UFTRACE_DIR": d, "UFTRACE_PIPE": "0"}
    e.pop("UFTRACE_PIPE")
    e.update(env)
    try:
        p = subprocess.run([exe], input="\n".join(script_lines) + "\n", stdout=subprocess.PIPE,
                           stderr=subprocess.PIPE, text=True, env=e, timeout=timeout)
        rc, out, err = p.returncode, p.stdout, p.stderr
    except subprocess.TimeoutExpired as ex:
        rc, out, err = -999, (ex.stdout or b"").decode() if isinstance(ex.stdout, bytes) else (ex.stdout or ""), "TIMEOUT"
    data = b""
    while True:
        try:
            chunk = os.read(rfd, 1 << 16)
        except BlockingIOError:
            break
        if not chunk:
            break
        data += chunk
    os.close(rfd)
    msgs = []
    off = 0
    while off + 8 <= len(data):
        magic, typ, ln = struct.unpack_from("<HHI", data, off)
        if magic != 0xface:
            msgs.append(("BADMAGIC", data[off:off + 16]))
            break
        msgs.append((MSG_NAMES.get(typ, str(typ)), data[off + 8: off + 8 + ln]))
        off += 8 + ln
    # unlink this run's shm files
    # unlink this run's shm files: every buffer of its session, also the pre-allocated ones that
    # were never announced (libmcount prepares two per task)
    sids = set()
    for m in msgs:
        if m[0] == "REC_START":
            name = m[1].decode(errors="replace").rstrip("\0")
            mm = re.match(r"/uftrace-([0-9a-f]+)-", name)
            if mm:
                sids.add(mm.group(1))
        if m[0] == "SESSION" and len(m[1]) >= 32:
            sids.add(m[1][16:32].decode(errors="replace"))
    for sid in sids:
        for f in glob.glob("/dev/shm/uftrace-%s-*" % sid):
            try:
                os.unlink(f)
            except OSError:
                pass
    lines = out.split("\n")
    if lines and lines[-1] == "":
        lines.pop()
    for f in glob.glob(os.path.join(d, "*")):
        try:
            os.unlink(f)
        except OSError:
            pass
    try:
        os.unlink(fifo)
        os.rmdir(d)
    except OSError:
        pass
    return {"lines": lines, "msgs": msgs, "rc": rc, "stderr": err}
