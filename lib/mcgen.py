"""Generators for libmcount hook scripts (H1) and their option sets; translation of an
abstract option set into (a) UFTRACE_* environment for the real library and (b) CFG/TRIG
lines for the Lean model."""
import random

NF = 8            # f0..f7 ; 8 = g_big
FILES = {"a": [0, 1, 2, 3, 8], "b": [4, 5, 6, 7]}   # h1_driver.c / h1_funcs_b.c
SRC = {"a": "h1_driver.c", "b": "h1_funcs_b.c"}
import os
HARNESS_DIR = os.path.join(os.path.dirname(os.path.dirname(os.path.abspath(__file__))), "harness")


def fname(i):
    return "g_big" if i == 8 else "f%d" % i


class Opts:
    def __init__(self):
        self.F = []          # opt-in functions
        self.N = []          # opt-out functions
        self.C = []          # caller filter
        self.L = None        # ("a"|"b", positive?)
        self.D = None
        self.t = None
        self.Z = None
        self.T = []          # (fn, [(action, value)])
        self.max_stack = None
        self.trace_off = False
        self.patt = "regex"

    def describe(self):
        d = {k: v for k, v in self.__dict__.items() if v not in (None, [], False)}
        return d


def rand_opts(rng, rich=True):
    o = Opts()
    r = rng.random()
    fns = list(range(NF)) + [8]
    if r < 0.35:
        o.F = rng.sample(fns, rng.randint(1, 2))
    r = rng.random()
    if r < 0.35:
        o.N = [f for f in rng.sample(fns, rng.randint(1, 2)) if f not in o.F]
    if rng.random() < 0.15:
        o.C = rng.sample(fns, 1)
    if rng.random() < 0.25:
        o.L = (rng.choice("ab"), rng.random() < 0.7)
    if rng.random() < 0.25:
        o.D = rng.randint(1, 4)
    if rng.random() < 0.3:
        o.t = rng.choice([1, 5, 10, 20, 50])
    if rng.random() < 0.15:
        o.Z = rng.choice([10, 22, 23, 100, 300])
    if rich and rng.random() < 0.5:
        for _ in range(rng.randint(1, 2)):
            fn = rng.choice(fns)
            acts = []
            for a in rng.sample(["depth", "time", "size", "trace", "filter", "notrace", "trace_off", "trace_on"],
                                rng.randint(1, 2)):
                if a == "depth":
                    acts.append((a, rng.randint(1, 3)))
                elif a == "time":
                    acts.append((a, rng.choice([1, 5, 10, 30])))
                elif a == "size":
                    acts.append((a, rng.choice([10, 23, 100])))
                else:
                    acts.append((a, None))
            if any(a == "filter" for a, _ in acts) and any(a == "notrace" for a, _ in acts):
                acts = [x for x in acts if x[0] != "notrace"]
            if any(f == fn for f, _ in o.T):
                continue
            o.T.append((fn, acts))
    for i, (fn, acts) in enumerate(o.T):
        # "trace_on,trace_off" on one trigger cancel each other at parse time (utils/filter.c add_trigger)
        if any(a == "trace_on" for a, _ in acts) and any(a == "trace_off" for a, _ in acts):
            o.T[i] = (fn, [x for x in acts if x[0] != "trace_on"])
    if rng.random() < 0.1:
        o.trace_off = True
    if rng.random() < 0.2:
        o.max_stack = rng.choice([2, 3, 5])
    o.patt = rng.choice(["regex", "regex", "glob", "simple"])
    return o


def patt(o, fn):
    n = fname(fn)
    if o.patt == "regex":
        return "^" + n + "$"
    return n


def to_env(o):
    env = {}
    filt = [patt(o, f) for f in o.F] + ["!" + patt(o, f) for f in o.N]
    if filt:
        env["UFTRACE_FILTER"] = ";".join(filt)
    if o.C:
        env["UFTRACE_CALLER"] = ";".join(patt(o, f) for f in o.C)
    if o.L:
        # regex: substring match; glob/simple match the whole DWARF path
        base = SRC[o.L[0]]
        lp = {"regex": base, "glob": "*" + base, "simple": HARNESS_DIR + "/" + base}[o.patt]
        env["UFTRACE_LOCATION"] = ("" if o.L[1] else "!") + lp
        env["UFTRACE_SRCLINE"] = "1"
    if o.D is not None:
        env["UFTRACE_DEPTH"] = str(o.D)
    if o.t is not None:
        env["UFTRACE_THRESHOLD"] = str(o.t)
    if o.Z is not None:
        env["UFTRACE_MIN_SIZE"] = str(o.Z)
    if o.max_stack is not None:
        env["UFTRACE_MAX_STACK"] = str(o.max_stack)
    trs = []
    for fn, acts in o.T:
        items = []
        for a, v in acts:
            if a in ("depth", "size"):
                items.append("%s=%d" % (a, v))
            elif a == "time":
                items.append("time=%dns" % v)
            else:
                items.append(a)
        trs.append(patt(o, fn) + "@" + ",".join(items))
    if trs:
        env["UFTRACE_TRIGGER"] = ";".join(trs)
    if o.trace_off:
        env["UFTRACE_TRACE_OFF"] = "1"
    if o.patt != "regex":
        env["UFTRACE_PATTERN"] = o.patt
    return env


def to_model(o, sizes, fast=False):
    """CFG / TRIG / FSIZE lines for `uvmodel Mcount`."""
    trig = {}

    def t(fn):
        return trig.setdefault(fn, [])
    optin = 0
    for f in o.F:
        t(f).append("filter=in")
        optin = 1
    for f in o.N:
        t(f).append("filter=out")
    for f in o.C:
        t(f).append("caller")
    locin = 0
    if o.L:
        for f in FILES[o.L[0]]:
            t(f).append("loc=in" if o.L[1] else "loc=out")
        if o.L[1]:
            locin = 1
    for fn, acts in o.T:
        for a, v in acts:
            if a in ("depth", "time", "size"):
                t(fn).append("%s=%d" % (a, v))
            elif a == "filter":
                t(fn).append("filter=in")
                optin = 1
            elif a == "notrace":
                t(fn).append("filter=out")
            elif a == "trace_on":
                t(fn).append("traceon")
            elif a == "trace_off":
                t(fn).append("traceoff")
            else:
                t(fn).append(a)
    cfg = "CFG maxstack=%d depth=%d threshold=%d optin=%d locin=%d caller=%d minsize=%d fast=%d enabled=%d" % (
        o.max_stack if o.max_stack is not None else 1024,
        o.D if o.D is not None else 1024,   # OPT_DEPTH_DEFAULT
        o.t or 0, optin, locin, 1 if o.C else 0, o.Z or 0, 1 if fast else 0, 0 if o.trace_off else 1)
    lines = [cfg]
    for fn, items in sorted(trig.items()):
        lines.append("TRIG %d %s" % (fn, " ".join(items)))
    for fn, sz in sorted(sizes.items()):
        lines.append("FSIZE %d %d" % (fn, sz))
    return lines


# ---- call forests ---------------------------------------------------------------
def rand_forest(rng, max_calls=30, max_depth=6, zero_dur=0.15, recursion=0.2, fns=None):
    """Returns a list of ops: ('E', fn) / ('X',) / ('T', t) with a scripted clock."""
    fns = fns if fns is not None else list(range(NF)) + [8]
    ops = []
    now = [1000]
    count = [0]

    def call(depth, parent_fn):
        fn = parent_fn if (parent_fn is not None and rng.random() < recursion) else rng.choice(fns)
        ops.append(("T", now[0]))
        ops.append(("E", fn))
        count[0] += 1
        nk = 0
        if depth < max_depth:
            nk = rng.choice([0, 0, 1, 1, 2, 3]) if depth < 3 else rng.choice([0, 1, 1, 2])
        for _ in range(nk):
            if count[0] >= max_calls:
                break
            if rng.random() > zero_dur:
                now[0] += rng.choice([1, 2, 5, 10, 11, 30])
            call(depth + 1, fn)
        if rng.random() > zero_dur or nk:
            now[0] += rng.choice([1, 2, 5, 9, 10, 11, 50])
        ops.append(("T", now[0]))
        ops.append(("X",))

    ntop = rng.randint(1, 3)
    for _ in range(ntop):
        if count[0] >= max_calls:
            break
        call(0, None)
        now[0] += rng.choice([1, 3, 10])
    return ops


def script_lines(ops, kind_of):
    """kind_of(fn, call_index) -> 'pg' | 'cyg'."""
    out = []
    i = 0
    for op in ops:
        if op[0] == "T":
            out.append("T %d" % op[1])
        elif op[0] == "E":
            out.append("E %s %d" % (kind_of(op[1], i), op[1]))
            i += 1
        elif op[0] == "X":
            out.append("X")
        else:
            out.append(op[0])
    out.append("END")
    return out
