"""H5: generated C programs for end-to-end runtime validation (native vs traced)."""
import os
import subprocess

HDR = r'''
#include <stdio.h>
#include <stdarg.h>
#include <errno.h>
#include <string.h>
#include <stdint.h>
#include <pthread.h>
#include <complex.h>
#define NI __attribute__((noinline))
struct dd { double a, b; };
struct ll { long a, b; };
struct big { long v[5]; };
struct mix { long a; double b; };
static uint64_t mixu(uint64_t h, uint64_t x) { h ^= x + 0x9e3779b97f4a7c15ULL + (h << 6) + (h >> 2); return h; }
static uint64_t bitsd(double d) { uint64_t u; memcpy(&u, &d, 8); return u; }
static uint64_t bitsld(long double d) { uint64_t u[2] = {0, 0}; memcpy(u, &d, 10); return u[0] ^ (u[1] << 1); }
'''


def gen(rng, threads=1):
    c = [HDR]
    k1, k2, k3 = rng.randint(1, 9), rng.randint(2, 7), rng.randint(1, 5)
    c.append('''
NI int fi(int a, long b, short c) { return a * %d + (int)b - c; }
NI double fd(double a, float b, int c) { return a * %d.5 + b / (c + 1); }
NI long double fld(long double x, int n) { return x * %d.25L + n; }
NI struct dd fdd(double a, double b) { struct dd r = { a * 0.5 + b, b * 0.25 + 1 }; return r; }
NI struct ll fll(long a, long b) { struct ll r = { a + %d, b * 3 }; return r; }
NI struct big fbig(int n) { struct big r; for (int i = 0; i < 5; i++) r.v[i] = n * (i + %d); return r; }
NI struct mix fmix(long a, double b) { struct mix r = { a ^ %d, b + 0.125 }; return r; }
NI double complex fcx(double a, double b) { return (a + b * I) * (1.0 + 0.5 * I); }
NI double fvar(int n, ...) { va_list ap; double s = 0; va_start(ap, n);
  for (int i = 0; i < n; i++) { if (i & 1) s += va_arg(ap, double); else s += va_arg(ap, int); } va_end(ap); return s; }
NI int ferrno(int e) { errno = e; return e + 1; }
NI double fnest(double x, int d) { if (d <= 0) return fd(x, 1.5f, 2); struct dd r = fdd(x, d); return fnest(r.a, d - 1) + r.b; }
''' % (k1, k2, k3, k1, k2, k3))
    iters = rng.choice([3000, 8000, 20000])
    calls = ['h = mixu(h, (uint64_t)fi(i, i * 3L, (short)i));',
             'h = mixu(h, bitsd(fd(i * 0.5, 1.25f, i & 7)));',
             'h = mixu(h, bitsld(fld(i * 1.5L, i & 3)));',
             '{ struct dd r = fdd(i * 0.5, i * 0.25); h = mixu(h, bitsd(r.a)); h = mixu(h, bitsd(r.b)); }',
             '{ struct ll r = fll(i, i + 1); h = mixu(h, r.a); h = mixu(h, r.b); }',
             '{ struct big r = fbig(i); h = mixu(h, r.v[0] + r.v[4]); }',
             '{ struct mix r = fmix(i, i * 0.75); h = mixu(h, r.a); h = mixu(h, bitsd(r.b)); }',
             '{ double complex z = fcx(i * 0.5, i * 0.125); h = mixu(h, bitsd(creal(z))); h = mixu(h, bitsd(cimag(z))); }',
             'h = mixu(h, bitsd(fvar(4, i, 0.5, i + 1, 0.25)));',
             '{ int r = ferrno(i & 63); h = mixu(h, r); h = mixu(h, errno); }',
             'if ((i & 255) == 0) h = mixu(h, bitsd(fnest(i * 0.5, 1 + (i >> 8) % 5)));']
    rng.shuffle(calls)
    calls = calls[:rng.randint(6, len(calls))]
    if not any("fdd" in x for x in calls):
        calls.append('{ struct dd r = fdd(i * 0.5, i * 0.25); h = mixu(h, bitsd(r.a)); h = mixu(h, bitsd(r.b)); }')
    c.append('static void *work(void *arg) { uint64_t h = (uint64_t)(long)arg; for (int i = 0; i < %d; i++) {\n  %s\n }\n return (void *)h; }\n' % (
        iters, "\n  ".join(calls)))
    if threads > 1:
        c.append('int main(void) { pthread_t t[%d]; void *r; for (long i = 0; i < %d; i++) pthread_create(&t[i], NULL, work, (void *)(i + 1));\n'
                 ' for (int i = 0; i < %d; i++) { pthread_join(t[i], &r); printf("%%d %%016lx\\n", i, (unsigned long)r); } return %d; }\n' % (
                     threads, threads, threads, rng.randint(0, 3)))
    else:
        c.append('int main(void) { void *r = work((void *)1L); printf("%%016lx\\n", (unsigned long)r); return %d; }\n' % rng.randint(0, 3))
    return "".join(c)


BUILDS = {
    "pg": ["-pg"],
    "cyg": ["-finstrument-functions"],
    "fentry": ["-pg", "-mfentry"],
}


def build(src_path, out, flavour, opt="-O0"):
    r = subprocess.run(["gcc", opt, "-g"] + BUILDS[flavour] + ["-o", out, src_path, "-lpthread", "-lm"],
                       stdout=subprocess.PIPE, stderr=subprocess.STDOUT, text=True)
    return r.returncode == 0, r.stdout


def run_native(exe, timeout=60):
    try:
        p = subprocess.run([exe], stdout=subprocess.PIPE, stderr=subprocess.PIPE, timeout=timeout)
        return p.returncode, p.stdout.decode("utf-8", "replace")
    except subprocess.TimeoutExpired:
        return -999, "TIMEOUT"


def run_traced(uftrace_src, exe, datadir, opts=(), timeout=120):
    cmd = [os.path.join(uftrace_src, "uftrace"), "record", "--libmcount-path=" + os.path.join(uftrace_src, "libmcount"),
           "--no-event", "--no-pager", "-d", datadir] + list(opts) + [exe]
    try:
        p = subprocess.run(cmd, stdout=subprocess.PIPE, stderr=subprocess.PIPE, timeout=timeout)
        return p.returncode, p.stdout.decode("utf-8", "replace"), p.stderr.decode("utf-8", "replace")
    except subprocess.TimeoutExpired:
        return -999, "TIMEOUT", ""
