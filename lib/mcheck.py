"""Shared by C02 / C05 (and later C09/C17): run libmcount hook scripts on the real
library (H1) and on the Lean model `Mcount`, decode and compare."""
import re
import struct
import subprocess
from concurrent.futures import ThreadPoolExecutor

from lib import common as C, h1, mcgen


def sym_sizes(exe):
    nm = subprocess.run(["nm", "-S", exe], stdout=subprocess.PIPE, text=True).stdout
    sizes = {}
    for l in nm.split("\n"):
        p = l.split()
        if len(p) == 4 and re.fullmatch(r"f[0-7]|g_big", p[3]):
            sizes[8 if p[3] == "g_big" else int(p[3][1])] = int(p[1], 16)
    return sizes


def decode(hexs, syms, sizes):
    """hex of 16-byte records -> canonical tokens T:depth:fn:time (payload-free streams only)."""
    toks = []
    b = bytes.fromhex(hexs)
    i = 0
    while i + 16 <= len(b):
        t, w = struct.unpack_from("<QQ", b, i)
        typ = w & 3
        more = (w >> 2) & 1
        magic = (w >> 3) & 7
        depth = (w >> 6) & 0x3ff
        addr = w >> 16
        fn = [k for k, a in enumerate(syms) if a <= addr < a + sizes.get(k, 16)]
        name = (str(fn[0]) if addr == syms[fn[0]] else "%d+%d" % (fn[0], addr - syms[fn[0]])) if fn else hex(addr)
        tok = "%s:%d:%s:%d" % ("EXLV"[typ], depth, name, t)
        if magic != 5:
            tok += ":badmagic%d" % magic
        if more:
            tok += ":more"
        toks.append(tok)
        i += 16
    if i != len(b):
        toks.append("TRAILING%d" % (len(b) - i))
    return " ".join(toks) if toks else "-"


def impl_lines(r, sizes, fast):
    """Normalise the harness output of one run to the model's line format."""
    if not r["lines"] or not r["lines"][0].startswith("SYMS"):
        return ["HARNESS-FAILED rc=%s %s" % (r["rc"], r["stderr"][-200:])]
    syms = [int(x, 16) for x in r["lines"][0].split()[1:10]]
    out = []
    for l in r["lines"][1:]:
        m = re.match(r"\d+ (.*)", l)
        body = m.group(1) if m else l
        mm = re.search(r"recs=(\S*)", body)
        if mm:
            body = body[:mm.start()] + "recs=" + decode(mm.group(1).replace("|", "").replace("-", ""), syms, sizes)
        body = re.sub(r"rc=-?\d+ |clock_reads=\d+ ?|restored=1 ?", "", body)
        out.append(C.norm(body))
    return out


def strip_obs(line, fast):
    """Observations that are checked separately (errno, return address) or absent in a variant."""
    line = re.sub(r"errno=ok |ret=(ok|-) ", "", line)
    if fast:
        line = re.sub(r" filt=\S+ en=\d", "", line)
    return C.norm(line)


def run_cases(ctx, exe, sizes, cases, fast=False, bufsize="1048576"):
    """cases: list of dict(opts=Opts, script=[lines]). Adds impl/model/raw to each."""
    def one(ic):
        i, c = ic
        env = dict(mcgen.to_env(c["opts"]), UFTRACE_BUFFER=bufsize)
        env.update(c.get("env", {}))
        return h1.run(ctx, exe, env, c["script"], i)
    with ThreadPoolExecutor(16) as ex:
        rs = list(ex.map(one, enumerate(cases)))
    mlines = []
    spans = []
    for c in cases:
        pre = ["RESET"] + mcgen.to_model(c["opts"], sizes, fast)
        spans.append((len(mlines) + len(pre), len(c["script"])))
        mlines += pre + c["script"]
    mout = C.run_model("Mcount", mlines)
    for c, r, (a, n) in zip(cases, rs, spans):
        c["raw"] = r
        c["impl"] = impl_lines(r, sizes, fast)
        c["model"] = [C.norm(x) for x in mout[a:a + n]]
        c["impl_cmp"] = [strip_obs(x, fast) for x in c["impl"]]
        c["model_cmp"] = [strip_obs(x, fast) for x in c["model"]]
        c["bad_obs"] = [x for x in c["impl"] if "errno=BAD" in x or "ret=BAD" in x or "restored=0" in x]
    return cases


def stream(lines):
    """all record tokens of a run, in order"""
    out = []
    for l in lines:
        m = re.search(r"recs=(.*)$", l)
        if m and m.group(1).strip() != "-":
            out += m.group(1).split()
    return out
