"""H3: synthesize a complete uftrace data directory from an abstract description and
parse the output of the analysis commands back into canonical events.

A description:
  DataDir(symbols=[(rel_addr, size, name)], tasks=[Task(tid, pid, records, ppid=None, fork_time=None)])
  record = Rec(time, typ, depth, fn_or_addr, payload=b"", more=None)    typ in 'E','X','L','V'
Times are integer nanoseconds.
"""
import os
import re
import struct
import subprocess

MAGIC = b"Ftrace!\0"
BASE = 0x400000          # load address of the synthetic executable (map start)
EXE = "/synth/prog"
SID = "a1b2c3d4e5f60718"
TYP = {"E": 0, "X": 1, "L": 2, "V": 3}


class Rec:
    __slots__ = ("time", "typ", "depth", "addr", "payload", "more")

    def __init__(self, time, typ, depth, addr, payload=b"", more=None):
        self.time, self.typ, self.depth, self.addr = time, typ, depth, addr
        self.payload = payload
        self.more = (len(payload) > 0) if more is None else more

    def pack(self):
        w = TYP[self.typ] | (1 << 2 if self.more else 0) | (5 << 3) | ((self.depth & 0x3ff) << 6) | (self.addr << 16)
        b = struct.pack("<QQ", self.time, w & 0xffffffffffffffff)
        if self.payload:
            pad = (-len(self.payload)) % 8
            b += self.payload + b"\0" * pad
        return b


class Task:
    def __init__(self, tid, records, pid=None, ppid=None, fork_time=None, start_time=None):
        self.tid, self.records = tid, records
        self.pid = pid if pid is not None else tid
        self.ppid, self.fork_time, self.start_time = ppid, fork_time, start_time


def ts(ns):
    return "%d.%09d" % (ns // 1000000000, ns % 1000000000)


class DataDir:
    def __init__(self, symbols, tasks, max_stack=1024, cmdline="uftrace record ./prog", exename=EXE,
                 feat_extra=0, sess_time=1000, extra_info=None):
        self.symbols = symbols      # (rel, size, name)  rel relative to BASE
        self.tasks = tasks
        self.max_stack = max_stack
        self.cmdline = cmdline
        self.exename = exename
        self.feat_extra = feat_extra
        self.sess_time = sess_time
        self.extra_info = extra_info or {}

    def addr_of(self, name):
        for rel, size, n in self.symbols:
            if n == name:
                return BASE + rel
        raise KeyError(name)

    def info_bytes(self):
        feat = 0x1263 | self.feat_extra         # PLTHOOK|TASK_SESSION|SYM_REL_ADDR|MAX_STACK|AUTO_ARGS|SYM_SIZE
        info_mask = 0x7bff & ~(1 << 1)          # no build-id
        hdr = MAGIC + struct.pack("<IHBBQQHHI", 4, 40, 1, 2, feat, info_mask, self.max_stack, 0, 0)
        tids = ",".join(str(t.tid) for t in self.tasks)
        lines = [
            "exename:" + self.exename,
            "exit_status:0",
            "cmdline:" + self.cmdline,
            "cpuinfo:lines=2", "cpuinfo:nr_cpus=4 / 4 (online/possible)", "cpuinfo:desc=synthetic",
            "meminfo:1.0 / 2.0 GB (free / total)",
            "osinfo:lines=3", "osinfo:kernel=Linux 6.0", "osinfo:hostname=vm", "osinfo:distro=\"synthetic\"",
            "taskinfo:lines=2", "taskinfo:nr_tid=%d" % len(self.tasks), "taskinfo:tids=" + tids,
            "usageinfo:lines=6", "usageinfo:systime=0.000000", "usageinfo:usrtime=0.001000",
            "usageinfo:ctxsw=1 / 0 (voluntary / involuntary)", "usageinfo:maxrss=1000",
            "usageinfo:pagefault=0 / 10 (major / minor)", "usageinfo:iops=0 / 0 (read / write)",
            "loadinfo:0.10 / 0.10 / 0.10",
            "record_date:Tue Sep 29 12:00:00 2026",
            "elapsed_time:0.001000000 sec",
            "pattern_type:regex",
            "uftrace_version:v0.17 ( x86_64 dwarf python3 luajit tui perf sched dynamic kernel )",
            "utc_offset:0",
        ]
        for k, v in self.extra_info.items():
            lines = [(k + ":" + v) if l.startswith(k + ":") else l for l in lines]
        return hdr + ("\n".join(lines) + "\n").encode("utf-8", "surrogateescape")

    def files(self):
        """name -> bytes"""
        out = {"info": self.info_bytes()}
        pid0 = self.tasks[0].pid
        t = ["SESS timestamp=%s pid=%d sid=%s exename=\"%s\"" % (ts(self.sess_time), pid0, SID, self.exename)]
        for k in self.tasks:
            st = k.start_time if k.start_time is not None else self.sess_time + 1
            if k.ppid is not None:
                t.append("FORK timestamp=%s pid=%d ppid=%d" % (ts(k.fork_time or st), k.tid, k.ppid))
            else:
                t.append("TASK timestamp=%s tid=%d pid=%d" % (ts(st), k.tid, k.pid))
        out["task.txt"] = ("\n".join(t) + "\n").encode()
        end = BASE + max([r + max(s, 1) for r, s, _ in self.symbols] + [0x1000])
        end = (end + 0xfff) & ~0xfff
        # the [stack] line is what the readers guess the kernel base from
        out["sid-%s.map" % SID] = ("%x-%x r-xp 00000000 00:00 0                          %s\n"
                                   "7ffd00000000-7ffd00021000 rw-p 00000000 00:00 0                          [stack]\n" % (
            BASE, end, self.exename)).encode("utf-8", "surrogateescape")
        sym = ["# symbols: %d" % len(self.symbols), "# path name: " + self.exename, "# build-id: "]
        for rel, size, name in sorted(self.symbols):
            sym.append("%016x %08x T %s" % (rel, size, name))
        out[os.path.basename(self.exename) + ".sym"] = ("\n".join(sym) + "\n").encode("utf-8", "surrogateescape")
        for k in self.tasks:
            out["%d.dat" % k.tid] = b"".join(r.pack() for r in k.records)
        return out

    def write(self, d, overrides=None):
        os.makedirs(d, exist_ok=True)
        fs = self.files()
        if overrides:
            fs.update(overrides)
        for n, b in fs.items():
            if b is None:
                continue
            with open(os.path.join(d, n), "wb") as f:
                f.write(b)
        return fs


def run_uftrace(uftrace, cmd, d, args=(), timeout=20, env=None):
    e = dict(os.environ)
    e.pop("UFTRACE_DIR", None)
    e["ASAN_OPTIONS"] = "detect_leaks=0:abort_on_error=0:exitcode=99"
    e["UBSAN_OPTIONS"] = "halt_on_error=1:exitcode=98:print_stacktrace=0"
    if env:
        e.update(env)
    try:
        p = subprocess.run([uftrace, cmd, "-d", d, "--no-pager", "--color=no"] + list(args),
                           stdout=subprocess.PIPE, stderr=subprocess.PIPE, timeout=timeout, env=e)
        return p.returncode, p.stdout.decode("utf-8", "replace"), p.stderr.decode("utf-8", "replace")
    except subprocess.TimeoutExpired as ex:
        return -999, (ex.stdout or b"").decode("utf-8", "replace"), "TIMEOUT"


DUR_UNITS = {"ns": 1, "us": 1000, "ms": 1000000, "s": 1000000000, "m": 60000000000}
LINE = re.compile(r"^\s*(?:(?P<dur>[\d.]+) (?P<unit>ns|us|ms| s| m)\s*)?\[\s*(?P<tid>\d+)\] \|(?P<ind> *)(?P<body>.*)$")


def parse_replay(text):
    """default `uftrace replay` output -> list of (kind, tid, depth, name, dur_ns|None)
    kind: 'E' (name() {), 'X' (} or } /* name */), 'L' (folded leaf: name();), 'O' (other line)."""
    ev = []
    for line in text.split("\n"):
        if not line or line.startswith("#"):
            continue
        m = LINE.match(line)
        if not m:
            ev.append(("?", None, None, line, None))
            continue
        tid = int(m.group("tid"))
        depth = len(m.group("ind")) // 2
        body = m.group("body")
        dur = None
        if m.group("dur"):
            val = m.group("dur")
            unit = m.group("unit").strip()
            # printed as %3d.%03d of the unit: exact integer arithmetic for ns within the unit's precision
            whole, frac = val.split(".")
            dur = (int(whole) * 1000 + int(frac)) * DUR_UNITS[unit] // 1000
        mm = re.match(r"^(.*)\(.*\) \{$", body)
        if mm:
            ev.append(("E", tid, depth, mm.group(1), None))
            continue
        mm = re.match(r"^\}(?: /\* (.*) \*/)?$", body) or re.match(r"^\}(?: = .*;)?(?: /\* (.*) \*/)?$", body)
        if mm:
            ev.append(("X", tid, depth, mm.group(1), dur))
            continue
        mm = re.match(r"^(.*)\(.*\)(?: = .*)?;$", body)
        if mm:
            ev.append(("L", tid, depth, mm.group(1), dur))
            continue
        ev.append(("O", tid, depth, body, dur))
    return ev
