"""Shared machinery for all /verif checks: scratch snapshot of /repo, Lean build
and axiom audit, model driver, evidence, known findings, violation reporting."""
import atexit
import fcntl
import hashlib
import json
import os
import tempfile
import random
import re
import shutil
import subprocess
import sys
import time

VERIF = os.path.dirname(os.path.dirname(os.path.abspath(__file__)))
REPO = os.environ.get("VERIF_REPO", "/repo")
LEAN = os.path.join(VERIF, "lean")
GUARD = "UFTRACE_VERIF"
SCRATCH_ROOT = os.environ.get("VERIF_SCRATCH", "/var/tmp")
ALLOWED_AXIOMS = {"propext", "Classical.choice", "Quot.sound"}
FORBIDDEN = re.compile(
    r"\b(sorry|admit|native_decide|bv_decide|implemented_by|unsafe|partial)\b|^\s*axiom\s|maxHeartbeats\s+0")

COMMON_CFLAGS = ["-std=gnu11", "-D_GNU_SOURCE", "-O1", "-g", "-DDEBUG_MODE=0", "-w",
                 "-D" + GUARD]


def sh(cmd, **kw):
    kw.setdefault("stdout", subprocess.PIPE)
    kw.setdefault("stderr", subprocess.STDOUT)
    kw.setdefault("text", True)
    return subprocess.run(cmd, **kw)


class Ctx:
    """Per-run context: property id, tier, seed, scratch dir, evidence."""

    def __init__(self, prop, tier, seed):
        self.prop = prop
        self.tier = tier
        self.seed = seed
        self.rng = random.Random(seed * 1000003 + int(prop[1:]))
        self.t0 = time.time()
        self.scratch = None
        self.notes = []
        self.known_printed = []
        self.violations = []      # (replay_path, no_failing_input)
        self.coverage = {}
        self.assumptions = []
        self.obligations = []     # theorem names
        self.discharged = []
        self.axioms = {}

    # ---- scratch snapshot of /repo's working tree -------------------------
    def snapshot(self):
        if self.scratch:
            return self.scratch
        d = os.path.join(SCRATCH_ROOT, "uv-%s-%d" % (self.prop, os.getpid()))
        shutil.rmtree(d, ignore_errors=True)
        os.makedirs(d)
        atexit.register(shutil.rmtree, d, True)
        src = os.path.join(d, "src")
        # sources only: no objects, no git
        r = sh(["rsync", "-a", "--exclude=.git", "--exclude=*.o", "--exclude=*.op", "--exclude=*.ot",
                "--exclude=*.oy", "--exclude=*.so", "--exclude=*.a", "--exclude=/uftrace",
                "--exclude=tests/unittest", "--exclude=*.osp", "--exclude=*.of", "--exclude=*.os",
                "--exclude=*.ofs", "--exclude=*.on",
                REPO + "/", src + "/"])
        if r.returncode != 0:
            raise RuntimeError("rsync failed: " + r.stdout)
        cfg = os.path.join(src, ".config")
        if os.path.exists(cfg):
            s = open(cfg).read()
            s = re.sub(r"(?m)^(override\s+)?srcdir\s*:=.*$", lambda m: (m.group(1) or "") + "srcdir := " + src, s)
            s = re.sub(r"(?m)^(override\s+)?objdir\s*:=.*$", lambda m: (m.group(1) or "") + "objdir := " + src, s)
            open(cfg, "w").write(s)
        self.scratch = d
        self.src = src
        return d

    def make(self, extra=(), target=()):
        """Build uftrace + libmcount in the snapshot (about 10 s)."""
        self.snapshot()
        cmd = ["make", "-C", self.src, "-j16", "-s", "CFLAGS=-Wno-error -D" + GUARD] + list(extra) + list(target)
        r = sh(cmd)
        return r.returncode == 0, r.stdout

    def cc(self, out, sources, extra=(), cc="gcc"):
        """Compile a harness against the snapshot's sources."""
        self.snapshot()
        cmd = [cc] + COMMON_CFLAGS + ["-iquote", self.src, "-iquote", os.path.join(self.src, "arch/x86_64")] \
            + list(extra) + list(sources) + ["-o", out]
        r = sh(cmd)
        return r.returncode == 0, r.stdout

    def elapsed(self):
        return time.time() - self.t0


# ---- Lean side ------------------------------------------------------------
class LeanLock:
    def __enter__(self):
        os.makedirs(os.path.join(LEAN, ".lake"), exist_ok=True)
        self.f = open(os.path.join(LEAN, ".lake", "verif.lock"), "w")
        fcntl.flock(self.f, fcntl.LOCK_EX)
        return self

    def __exit__(self, *a):
        fcntl.flock(self.f, fcntl.LOCK_UN)
        self.f.close()


def write_if_changed(path, content):
    try:
        if open(path).read() == content:
            return False
    except FileNotFoundError:
        pass
    os.makedirs(os.path.dirname(path), exist_ok=True)
    with open(path, "w") as f:
        f.write(content)
    return True


CURRENT_PROP = None      # set by check.py: the property whose check is running


def needed_models(prop):
    """driver modules the check of `prop` needs: its own, the ones its driver imports, the shared hook model"""
    ids, todo = [], [prop, "Mcount"]
    try:
        if "Mcount" not in open(os.path.join(VERIF, "checks", prop.lower() + ".py")).read() and \
                os.path.exists(os.path.join(LEAN, "Driver", prop + ".lean")):
            todo = [prop]
    except OSError:
        pass
    while todo:
        i = todo.pop()
        f = os.path.join(LEAN, "Driver", i + ".lean")
        if i in ids or not os.path.exists(f):
            continue
        ids.append(i)
        todo += re.findall(r"^import Driver\.(\w+)", open(f).read(), re.M)
    return [i for i in ids if i not in ("Proto", "Dispatch")]


def enabled_models():
    ids = [l.strip() for l in open(os.path.join(LEAN, "Driver", "enabled.txt")) if l.strip() and not l.startswith("#")]
    return [i for i in ids if os.path.exists(os.path.join(LEAN, "Driver", i + ".lean"))]


def uvmodel_path(model=None):
    """the driver executable of one model (`uv_<model>`); every model has its own executable, so a driver
    of another property that does not compile (e.g. because a change to /repo broke that property's
    regenerated definitions) can neither break the build nor the runs of this check"""
    return os.path.join(LEAN, ".lake", "build", "bin", "uv_" + (model or CURRENT_PROP or "Mcount"))


def exe_targets(prop=None):
    return ["uv_" + i for i in (needed_models(prop) if prop else enabled_models())]


def lake_build(targets):
    """lake build of the given module targets; the pseudo target `uvmodel` stands for the driver
    executables the running check needs.  Returns (ok, log)."""
    targets = list(targets)
    if "uvmodel" in targets:
        targets.remove("uvmodel")
        targets += exe_targets(CURRENT_PROP)
    r = sh([os.path.join(VERIF, "tools", "lk"), "build"] + targets)
    return r.returncode == 0, r.stdout


def prop_modules(prop):
    """the property's theorem modules: Props/CNN.lean and, when present, Props/CNNGen.lean (equivalence of
    definitions regenerated from /repo's sources by translators/c2lean.py with the hand-written model)"""
    mods = ["Uft.Props." + prop]
    if os.path.exists(os.path.join(LEAN, "Uft", "Props", prop + "Gen.lean")):
        mods.append("Uft.Props." + prop + "Gen")
    return mods


def theorem_names(prop):
    """Property theorems are the `theorem cNN_*` declarations of Props/CNN.lean (and Props/CNNGen.lean)."""
    ns0, names = "", []
    for m in prop_modules(prop):
        src = open(os.path.join(LEAN, m.replace(".", "/") + ".lean")).read()
        ns = re.findall(r"^namespace\s+(\S+)", src, re.M)
        found = re.findall(r"^theorem\s+(%s_\w+)" % prop.lower(), src, re.M)
        if m.endswith("Gen") and ns and ns[0] != ns0:
            found = [ns[0] + "." + n for n in found]      # fully qualified: another namespace
        elif ns and not ns0:
            ns0 = ns[0]
        names += found
    return ns0, names


def strip_comments(src):
    src = re.sub(r"/-.*?-/", "", src, flags=re.S)
    src = re.sub(r"--.*", "", src)
    return src


def forbidden_scan(files):
    hits = []
    for f in files:
        try:
            src = strip_comments(open(f).read())
        except FileNotFoundError:
            continue
        for i, line in enumerate(src.split("\n")):
            if FORBIDDEN.search(line):
                hits.append("%s: %s" % (os.path.relpath(f, VERIF), line.strip()[:100]))
    return hits


def lean_deps(prop):
    """Transitive project-local imports of Props/CNN.lean (files)."""
    seen, todo = [], prop_modules(prop)
    while todo:
        m = todo.pop()
        f = os.path.join(LEAN, m.replace(".", "/") + ".lean")
        if f in seen or not os.path.exists(f):
            continue
        seen.append(f)
        for imp in re.findall(r"^import\s+(\S+)", open(f).read(), re.M):
            if imp.startswith("Uft."):
                todo.append(imp)
    return seen


def audit(ctx, prop):
    """#print axioms for every property theorem; forbidden-construct scan.
    Returns list of problems (strings)."""
    ns, names = theorem_names(prop)
    ctx.obligations = names
    problems = []
    if not names:
        return ["no property theorems found in Props/%s.lean" % prop]
    tmp = os.path.join(LEAN, ".lake", "audit_%s_%d.lean" % (prop, os.getpid()))
    body = "".join("import %s\n" % m for m in prop_modules(prop))
    if ns:
        body += "open %s\n" % ns
    for n in names:
        body += "#print axioms %s\n" % n
    open(tmp, "w").write(body)
    try:
        r = sh([os.path.join(VERIF, "tools", "lk"), "env", "lean", tmp])
    finally:
        os.unlink(tmp)
    out = r.stdout
    if r.returncode != 0:
        problems.append("audit file failed to elaborate: " + out[-500:])
    cur = None
    found = {}
    for m in re.finditer(r"'([\w.]+)' (depends on axioms: \[([^\]]*)\]|does not depend on any axioms)", out):
        name = m.group(1).split(".")[-1]
        full = m.group(1)
        axs = [a.strip() for a in (m.group(3) or "").replace("\n", " ").split(",") if a.strip()]
        found[name] = axs
        found[full] = axs
    for n in names:
        if n not in found:
            problems.append("theorem %s not reported by #print axioms" % n)
            continue
        bad = [a for a in found[n] if a not in ALLOWED_AXIOMS]
        if bad:
            problems.append("theorem %s depends on unaccepted axioms %s" % (n, bad))
        else:
            ctx.discharged.append(n)
    ctx.axioms = found
    hits = forbidden_scan(lean_deps(prop))
    for h in hits:
        problems.append("forbidden construct: " + h)
    return problems


def run_model(model, lines, timeout=600):
    exe = uvmodel_path(model)
    if not os.path.exists(exe):
        sh([os.path.join(VERIF, "tools", "lk"), "build", "uv_" + model])
    r = subprocess.run([exe, model], input="\n".join(lines) + "\n", stdout=subprocess.PIPE,
                       stderr=subprocess.PIPE, text=True, timeout=timeout)
    if r.returncode != 0:
        raise RuntimeError("uvmodel %s failed: %s" % (model, r.stderr[-500:]))
    out = r.stdout.split("\n")
    if out and out[-1] == "":
        out.pop()
    return out


def norm(s):
    return " ".join(s.split())


# ---- findings, violations, evidence -----------------------------------------
def known_findings(prop):
    p = os.path.join(VERIF, "known_findings.json")
    try:
        kf = json.load(open(p))
    except FileNotFoundError:
        return []
    return [f for f in kf.get("findings", []) if f.get("property") == prop and f.get("status") == "open"]


def write_replay(ctx, name, obj):
    d = os.path.join(VERIF, "replays")
    os.makedirs(d, exist_ok=True)
    path = os.path.join(d, "%s-%s-seed%d.json" % (ctx.prop, name, ctx.seed))
    obj = dict(obj)
    obj.setdefault("property", ctx.prop)
    obj.setdefault("seed", ctx.seed)
    obj.setdefault("tier", ctx.tier)
    obj.setdefault("replay_cmd", "python3 /verif/check.py %s --replay %s" % (ctx.prop, path))
    with open(path, "w") as f:
        json.dump(obj, f, indent=1)
    return path


def run_bounded(cmd, timeout, input=None, **kw):
    """subprocess.run for commands that start traced programs: own process group, hard wall-clock limit, and the
    WHOLE group is killed afterwards — a grandchild that survives its parent (a tracee deadlocked inside a broken
    libmcount) must not keep our pipes open for ever.  Returns (rc, stdout, stderr, timed_out)."""
    import signal
    kw.setdefault("stdout", subprocess.PIPE)
    kw.setdefault("stderr", subprocess.PIPE)
    kw.setdefault("text", True)
    p = subprocess.Popen(cmd, stdin=subprocess.PIPE if input is not None else subprocess.DEVNULL,
                         start_new_session=True, **kw)
    timed_out = False
    try:
        out, err = p.communicate(input, timeout=timeout)
    except subprocess.TimeoutExpired:
        timed_out = True
        out = err = None
    try:
        os.killpg(p.pid, signal.SIGKILL)
    except (ProcessLookupError, PermissionError):
        pass
    if timed_out:
        try:
            out, err = p.communicate(timeout=10)
        except subprocess.TimeoutExpired:
            out, err = "", ""
    return (p.returncode if p.returncode is not None else -9), out or "", err or "", timed_out


WATCHDOG_S = {"quick": 1500, "thorough": 5400}


def arm_watchdog(ctx):
    """Last line of defence against a check that never returns (a changed tree can make a traced program or the
    recorder hang in a way no per-command timeout covers): after WATCHDOG_S seconds the check kills its children,
    reports that it could not decide — a VIOLATION without failing input, because the property is then not shown
    to hold — and exits 1.  Never reached on the unchanged tree (quick checks take about a minute)."""
    import signal

    def on_alarm(signum, frame):
        path = write_replay(ctx, "hang", {
            "kind": "check-did-not-finish",
            "what": "the check was still running after %d s; some command started by it hangs on this tree "
                    "(per-command timeouts did not cover it)" % WATCHDOG_S[ctx.tier],
            "note": "no verdict could be reached: the property is not shown to hold on this tree"})
        print("VIOLATION property=%s replay=%s no-failing-input-found" % (ctx.prop, path))
        sys.stdout.flush()
        try:
            signal.signal(signal.SIGTERM, signal.SIG_IGN)
            os.killpg(os.getpgid(0), signal.SIGTERM)
        except Exception:
            pass
        os._exit(1)

    signal.signal(signal.SIGALRM, on_alarm)
    signal.alarm(WATCHDOG_S.get(ctx.tier, 1500))


def violation(ctx, name, obj, no_failing_input=False):
    path = write_replay(ctx, name, obj)
    ctx.violations.append((path, no_failing_input))
    return path


def known(ctx, finding, what):
    msg = "KNOWN-FINDING: property=%s %s" % (ctx.prop, what)
    if msg not in ctx.known_printed:
        ctx.known_printed.append(msg)


def finish(ctx, level="proof"):
    """Write evidence, print KNOWN-FINDING / VIOLATION lines, return exit code."""
    cov = dict(ctx.coverage)
    cov.setdefault("obligations", len(ctx.obligations))
    cov.setdefault("discharged", len(ctx.discharged))
    cov.setdefault("checker_cmd", "cd /verif/lean && lake build Uft.Props.%s && lake env lean <audit: #print axioms>" % ctx.prop)
    axs = sorted({a for v in ctx.axioms.values() for a in v})
    cov.setdefault("trusted_base", [
        "Lean 4.33.0 kernel",
        "axioms used by the property theorems: " + (", ".join(axs) if axs else "none"),
        "correspondence harness + generator (differential testing of model vs /repo's current sources)",
    ])
    cov["theorems"] = ctx.obligations
    cov["axioms_per_theorem"] = ctx.axioms
    ev = {
        "property_id": ctx.prop,
        "tier": ctx.tier,
        "seed": ctx.seed,
        "level": level,
        "coverage": cov,
        "assumptions": ctx.assumptions,
        "wall_s": round(ctx.elapsed(), 2),
        "violations": len(ctx.violations),
        "known_findings_reported": ctx.known_printed,
        "notes": ctx.notes,
    }
    os.makedirs(os.path.join(VERIF, "evidence"), exist_ok=True)
    with open(os.path.join(VERIF, "evidence", ctx.prop + ".json"), "w") as f:
        json.dump(ev, f, indent=1)
    for k in ctx.known_printed:
        print(k)
    for path, nfi in ctx.violations:
        print("VIOLATION property=%s replay=%s%s" % (ctx.prop, path, " no-failing-input-found" if nfi else ""))
    sys.stdout.flush()
    return 1 if ctx.violations else 0


C2LEAN_FILES = {"C05": ["McountC"], "C07": ["FstackC"], "C08": ["ReportC"], "C19": ["PyTraceC"]}


def regen_c2lean(ctx, prop):
    """Tie T for the decision logic (translators/c2lean.py, DESIGN 5a): regenerate lean/Uft/Gen/<X>C.lean from
    the tree under test before the equivalence theorems of Props/<prop>Gen.lean are re-checked.  Returns an
    error text when the translator refuses the function (it left the translated subset), else None."""
    if prop not in C2LEAN_FILES or not os.path.exists(os.path.join(LEAN, "Uft", "Props", prop + "Gen.lean")):
        return None
    ctx.snapshot()
    sys.path.insert(0, VERIF)
    from translators import c2lean
    try:
        with LeanLock():
            changed = c2lean.regen(ctx.src, only=C2LEAN_FILES[prop])
    except c2lean.Refuse as e:
        return "c2lean refused a function of %s (it left the translated subset): %s" % (C2LEAN_FILES[prop], e)
    ctx.notes.append("c2lean: %s regenerated from the tree under test (%s)" % (
        ", ".join(C2LEAN_FILES[prop]), "changed: " + " ".join(changed) if changed else "identical to the last run"))
    return None


def prove(ctx, prop, extra_targets=()):
    """Step 3 of the run flow: build the property's theorems and the driver, audit.
    A failure is recorded as a broken proof obligation (violation w/o failing input
    unless the caller finds one)."""
    gen_note = regen_c2lean(ctx, prop)
    if gen_note:
        return False, [gen_note]
    ok, log = lake_build(prop_modules(prop) + ["uvmodel"] + list(extra_targets))
    if not ok:
        errs = [l for l in log.split("\n") if l.startswith("error")]
        return False, ["lake build failed"] + errs[:20]
    problems = audit(ctx, prop)
    if ctx.tier == "thorough" and not problems:
        # independent re-check of the compiled module by the toolchain's leanchecker
        r = sh([os.path.join(VERIF, "tools", "lk"), "env", "leanchecker", "Uft.Props." + prop])
        ok = r.returncode == 0
        ctx.notes.append("leanchecker Uft.Props.%s: %s" % (prop, "ok" if ok else "FAILED: " + r.stdout[-300:]))
        if not ok:
            problems.append("leanchecker rejected Uft.Props.%s: %s" % (prop, r.stdout[-300:]))
    return not problems, problems
