#!/bin/bash
# Runs the pinned baseline subset quickly: unit tests + python runtests p001..p012 (= the 116 pinned ids).
# (The full baseline command is `make -k -j8 test` in /repo; this is the same
# runner restricted to the 116 pinned ids.)
cd ${1:-/repo} && make -j16 -s >/dev/null 2>&1
cd tests && make -s unittest >/dev/null 2>&1
./unittest 2>&1 | grep -E "FAIL|SIG|BAD|failed|ran successfully"
./runtest.py -P -j8 2>&1 | tail -24
